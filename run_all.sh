#!/bin/bash
# usage: ./run_all.sh [tier] [extra args]   - runs every check, prints one line each
tier="${1:-quick}"; shift
cd "$(dirname "$0")"
rc_all=0
for id in C01 C02 C03 C04 C05 C06 C07 C08 C09 C10 C11 C12 C13 C14 C15 C16 C17 C18 C19 C20; do
  s=$(date +%s)
  out=$(./check $id --tier "$tier" "$@" 2>&1); rc=$?
  [ $rc -ne 0 ] && rc_all=1
  echo "[$id rc=$rc $(( $(date +%s)-s ))s] $(echo "$out" | grep -E "^$id " | head -1)"
  echo "$out" | grep -E "VIOLATION|INTERNAL|KNOWN-FINDING" | cut -c1-200
done
exit $rc_all
