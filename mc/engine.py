"""Bounded-exhaustive exploration engine.

A check module provides

    ID, LEVEL, RULE, ASSUMPTIONS, BOUND(tier) -> str
    spaces(tier) -> [Space, ...]       finite spaces, smallest first
    run_case(case) -> Result            runs the REAL spowtd code on one member

A Space is a finite indexed set: ``decode(i)`` for ``0 <= i < size`` gives a
JSON-serialisable case that carries everything needed to re-run it (replay
needs no explorer).  The engine enumerates every index of every space exactly
once (disjoint index ranges handed to forked workers), asserts that the number
of cases run equals the declared size, aggregates the counters and writes the
evidence file.  Nothing is sampled; VERIF_SEED only rotates the order in which
chunks are dispatched and which cases are copied into the evidence as samples.
"""

import collections
import hashlib
import json
import multiprocessing
import os
import re
import sys
import time
import traceback

HERE = os.path.dirname(os.path.dirname(os.path.abspath(__file__)))


class Space:
    """A finite, indexed set of cases"""

    def __init__(self, name, size, decode, note='', decoy_every=64):
        self.name = name
        self.size = int(size)
        self.decode = decode
        self.note = note
        # a check module may define decoy(): an unrelated run of the code
        # under test with different parameters, executed in the same worker
        # process before the first case of every chunk and before every
        # decoy_every-th case, so that state kept between calls (module
        # level caches, class attributes) is exposed ("start from
        # non-initial states too")
        self.decoy_every = decoy_every


class Result:
    """Outcome of running one case on the real code"""

    __slots__ = ('viol', 'nontrivial', 'outcome', 'states', 'transitions',
                 'counters', 'obs')

    def __init__(self, viol=None, nontrivial=False, outcome=None, states=1,
                 transitions=1, counters=None, obs=None):
        # viol: list of (signature, message)
        self.viol = viol or []
        self.nontrivial = nontrivial
        self.outcome = outcome
        self.states = states
        self.transitions = transitions
        self.counters = counters or {}
        self.obs = obs


class InternalError(Exception):
    """The harness itself misbehaved (never reported as a VIOLATION)"""


_STATE = {}
_TRAIL = []   # per process: [space index, lo, next index] of every chunk run


def _h64(text):
    return hashlib.blake2b(text.encode(), digest_size=8).digest()


def _worker(job):
    (space_index, lo, hi, sample_idx) = job
    module = _STATE['module']
    space = _STATE['spaces'][space_index]
    agg = {
        'space': space_index, 'n': 0, 'nontrivial': 0, 'states': 0,
        'transitions': 0, 'counters': collections.Counter(),
        'outcomes': set(), 'viol': {}, 'nviol': 0, 'samples': [],
    }
    reset = getattr(module, 'reset_worker', None)
    decoy = getattr(module, 'decoy', None)
    _TRAIL.append([space_index, lo, lo])
    for i in range(lo, hi):
        _TRAIL[-1][2] = i + 1
        case = space.decode(i)
        if decoy and (i == lo or i % space.decoy_every == 0):
            try:
                decoy()
                agg['counters']['decoy_runs'] += 1
            except Exception:  # pylint: disable=broad-except
                agg['counters']['decoy_runs_that_raised'] += 1
        try:
            res = module.run_case(case)
        except InternalError:
            raise
        except Exception:  # pylint: disable=broad-except
            raise InternalError(
                'harness error on case %s\n%s'
                % (json.dumps(case, default=str)[:2000],
                   traceback.format_exc()))
        agg['n'] += 1
        agg['states'] += res.states
        agg['transitions'] += res.transitions
        if res.nontrivial:
            agg['nontrivial'] += 1
        if res.counters:
            agg['counters'].update(res.counters)
        if res.outcome is not None:
            if len(agg['outcomes']) < 200000:
                agg['outcomes'].add(_h64(res.outcome))
        if res.viol:
            agg['nviol'] += 1
            for sig, msg in res.viol:
                if sig not in agg['viol'] or i < agg['viol'][sig][0]:
                    if len(agg['viol']) < 50 or sig in agg['viol']:
                        agg['viol'][sig] = (i, case, msg,
                                            [list(t) for t in _TRAIL])
        if i in sample_idx:
            agg['samples'].append(
                {'space': space.name, 'index': i, 'case': case,
                 'observed': res.obs, 'nontrivial': bool(res.nontrivial)})
    if reset:
        reset()
    return agg



def new_agg():
    return {
        'n': 0, 'nontrivial': 0, 'states': 0, 'transitions': 0,
        'counters': collections.Counter(), 'outcomes': set(),
        'viol': {}, 'nviol': 0, 'samples': [],
    }


def merge_part(agg, part, si):
    for k in ('n', 'nontrivial', 'states', 'transitions', 'nviol'):
        agg[k] += part[k]
    agg['counters'].update(part['counters'])
    agg['outcomes'] |= part['outcomes']
    agg['samples'] += part['samples']
    for sig, item in part['viol'].items():
        (i, case, msg) = item[:3]
        trail = item[3] if len(item) > 3 else None
        key = (si, i)
        if sig not in agg['viol'] or key < agg['viol'][sig][0]:
            agg['viol'][sig] = (key, case, msg, trail)


def enumerate_spaces(pool, spaces, seed, jobs, t0, deadline_s, agg,
                     per_space, capped, base_index=0):
    """Run every index of every space exactly once on the pool"""
    for si, space in enumerate(spaces):
        if time.time() - t0 > deadline_s:
            capped.append(space.name)
            per_space.append({'name': space.name, 'size': space.size,
                              'explored': 0, 'note': space.note})
            continue
        ts = time.time()
        if space.size == 0:
            per_space.append({'name': space.name, 'size': 0,
                              'explored': 0, 'note': space.note})
            continue
        nchunks = max(1, min(space.size, jobs * 8))
        step = -(-space.size // nchunks)
        sample_idx = frozenset(
            (seed * 7919 + k * (space.size // 3 + 1) + 1) % space.size
            for k in range(2))
        chunks = [(si, lo, min(lo + step, space.size), sample_idx)
                  for lo in range(0, space.size, step)]
        rot = seed % len(chunks)
        chunks = chunks[rot:] + chunks[:rot]
        n_space = 0
        nt_space = 0
        for part in pool.imap_unordered(_worker, chunks):
            n_space += part['n']
            nt_space += part['nontrivial']
            merge_part(agg, part, base_index + si)
        if n_space != space.size:
            raise InternalError(
                'space %s: explored %d of %d' % (space.name, n_space,
                                                 space.size))
        per_space.append({
            'name': space.name, 'size': space.size, 'explored': n_space,
            'nontrivial': nt_space, 'note': space.note,
            'wall_s': round(time.time() - ts, 2)})


def load_known_findings():
    path = os.path.join(HERE, 'known_findings.json')
    with open(path) as f:
        data = json.load(f)
    return data


def run_check(module, tier, seed, jobs, deadline_s):
    """Explore every space of a check; returns (exit_code, evidence)"""
    t0 = time.time()
    selftest = getattr(module, 'selftest', None)
    if selftest:
        selftest()
    _STATE['module'] = module
    agg = new_agg()
    per_space = []
    capped = []
    ctx = multiprocessing.get_context('fork')
    custom = getattr(module, 'explore', None)
    if custom:
        # explicit-state search driven by the module itself (C20): it fills
        # the same aggregate through enumerate_spaces / merge_part
        total = custom(tier, seed, jobs, t0, deadline_s, agg, per_space,
                       capped)
    else:
        spaces = module.spaces(tier)
        _STATE['spaces'] = spaces
        total = sum(s.size for s in spaces)
        with ctx.Pool(jobs) as pool:
            enumerate_spaces(pool, spaces, seed, jobs, t0, deadline_s, agg,
                             per_space, capped)
        if agg['n'] + sum(s.size for s in spaces
                          if s.name in capped) != total:
            raise InternalError('case count mismatch')

    from mc.lib import api as _api
    fraction = getattr(module, 'MIN_NONTRIVIAL_FRACTION', 0.0)
    if _api.SKIPPED:
        # function-level spaces left out because a private function was
        # renamed or takes other arguments: the spaces that remain have
        # their own, lower share of non-trivial cases
        fraction *= 0.25
    floor = max(getattr(module, 'MIN_NONTRIVIAL', 2),
                int(fraction * agg['n']))
    if _api.SKIPPED and agg['n'] == 0:
        # nothing left to run: reported as not decided in the evidence and
        # on the summary line, neither a pass with content nor an alarm
        floor = 0
    if agg['nontrivial'] < floor and not agg['viol'] and not capped:
        raise InternalError(
            'vacuous exploration: only %d of %d cases were non-trivial '
            '(rule: see RULE); the check cannot conclude anything'
            % (agg['nontrivial'], agg['n']))

    # ---- violations: determinism, known findings, replay files
    known = load_known_findings()
    open_findings = [f for f in known.get('findings', [])
                     if f.get('status') == 'open'
                     and f.get('property') == module.ID]
    lines = []
    new_violations = 0
    known_hit = collections.OrderedDict()
    for sig in sorted(agg['viol'], key=lambda s: agg['viol'][s][0]):
        (_key, case, msg, trail) = agg['viol'][sig]
        # replay in FRESH processes (so that nothing left behind by other
        # cases can make or mask it): first the case alone, then preceded by
        # one / two decoy runs.  The verdict must repeat identically under
        # the same protocol, else it is an internal error, not a violation.
        prelude = confirm_in_fresh_process(module, case, sig, trail, tier)
        matched = None
        for finding in open_findings:
            if re.search(finding['match'], sig):
                matched = finding
                break
        if matched is not None:
            known_hit.setdefault(matched['id'], (matched, sig, msg))
            continue
        new_violations += 1
        rdir = os.path.join(HERE, 'replays', module.ID)
        os.makedirs(rdir, exist_ok=True)
        blob = json.dumps({'property': module.ID, 'signature': sig,
                           'message': msg, 'case': case,
                           'prelude_decoys': prelude, 'tier': tier,
                           'trail': trail if prelude == 'trail' else None},
                          indent=1,
                          sort_keys=True, default=str)
        name = hashlib.sha1(blob.encode()).hexdigest()[:16] + '.json'
        rpath = os.path.join(rdir, name)
        with open(rpath, 'w') as f:
            f.write(blob + '\n')
        lines.append('VIOLATION property=%s replay=%s' % (module.ID, rpath))
        lines.append('  signature: %s' % sig)
        lines.append('  ' + msg.replace('\n', '\n  ')[:3000])
    for (finding, sig, msg) in known_hit.values():
        lines.append('KNOWN-FINDING: property=%s %s' % (module.ID,
                                                        finding['what']))
    wall = time.time() - t0
    exhaustive = not capped
    nontrivial = agg['nontrivial']
    samples = sorted(agg['samples'],
                     key=lambda s: (s['space'], s['index']))[:8]
    coverage = {
        'evaluations': agg['n'],
        'distinct_nontrivial': nontrivial,
        'rule': module.RULE,
        'samples': samples,
        'exhaustive': exhaustive,
        'bound_completed': module.BOUND(tier),
        'spaces': per_space,
        'declared_size': total,
        'distinct_outcomes': len(agg['outcomes']),
        'counters': dict(sorted(agg['counters'].items())),
        'cases_with_violation': agg['nviol'],
        'known_findings_hit': sorted(known_hit),
    }
    if capped:
        coverage['cap_hit'] = {'deadline_s': deadline_s,
                               'spaces_not_explored': capped}
    from mc.lib import api
    if api.SKIPPED:
        coverage['exhaustive'] = False
        coverage['skipped_because_internal_api_changed'] = list(api.SKIPPED)
    if module.LEVEL == 'model_checking':
        coverage['states'] = agg['states']
        coverage['transitions'] = agg['transitions']
        coverage['traces_validated_against_impl'] = agg['n']
    extra = getattr(module, 'extra_coverage', None)
    if extra:
        coverage.update(extra(tier, agg))
    evidence = {
        'property_id': module.ID,
        'tier': tier,
        'seed': seed,
        'level': module.LEVEL,
        'coverage': coverage,
        'assumptions': list(module.ASSUMPTIONS),
        'wall_s': round(wall, 2),
        'violations': new_violations,
    }
    return (1 if new_violations else 0, evidence, lines)


def confirm_in_fresh_process(module, case, sig, trail=None, tier='quick'):
    """How the violation reproduces (twice, identically) in a fresh
    interpreter: 0 / 1 / 2 = the case alone / after one / two decoy runs;
    'trail' = after re-running, in order, everything the worker that found
    it had executed before (for defects that depend on what the process did
    earlier).  Raises InternalError if no protocol reproduces it."""
    import subprocess
    import tempfile
    seen = []
    with tempfile.NamedTemporaryFile('w', suffix='.json', delete=False) as f:
        json.dump({'case': case, 'trail': trail, 'tier': tier}, f,
                  default=str)
        path = f.name
    protocols = [0, 1, 2] + (['trail'] if trail else [])
    try:
        for prelude in protocols:
            verdicts = []
            for _ in range(2):
                proc = subprocess.run(
                    [sys.executable, '-B', '-m', 'mc.run', module.ID,
                     '--replay', path, '--prelude', str(prelude), '--json'],
                    stdout=subprocess.PIPE, stderr=subprocess.PIPE,
                    text=True, cwd=HERE, timeout=7200)
                line = [l for l in proc.stdout.split('\n')
                        if l.startswith('REPLAY-RESULT ')]
                if not line:
                    raise InternalError(
                        'replay process failed (rc %s): %s'
                        % (proc.returncode, proc.stderr[-2000:]))
                verdicts.append(sorted(json.loads(line[0][14:])))
                if sig not in verdicts[-1]:
                    break
            seen.append((prelude, verdicts))
            if len(verdicts) == 2 and verdicts[0] == verdicts[1] \
                    and sig in verdicts[0]:
                return prelude
            if len(verdicts) == 2 and verdicts[0] != verdicts[1]:
                break
    finally:
        os.unlink(path)
    raise InternalError(
        'violation %s on %s was observed during exploration but does not '
        'reproduce in a fresh process (protocol, verdicts): %r'
        % (sig, json.dumps(case, default=str)[:1000], seen))


def replay_trail(module, trail, tier):
    """Re-run, in this process, every case of a recorded trail (with the
    decoys a worker would have run); returns the Result of the last case"""
    spaces = module.spaces(tier)
    decoy = getattr(module, 'decoy', None)
    res = None
    for (si, lo, nxt) in trail:
        space = spaces[si]
        for i in range(lo, nxt):
            case = space.decode(i)
            if decoy and (i == lo or i % space.decoy_every == 0):
                try:
                    decoy()
                except Exception:  # pylint: disable=broad-except
                    pass
            res = module.run_case(case)
    return res


def write_evidence(evidence):
    path = os.path.join(HERE, 'evidence', evidence['property_id'] + '.json')
    os.makedirs(os.path.dirname(path), exist_ok=True)
    tmp = path + '.tmp'
    with open(tmp, 'w') as f:
        json.dump(evidence, f, indent=1, sort_keys=True, default=str)
        f.write('\n')
    os.replace(tmp, path)
    return path


def summarize(evidence, out=sys.stdout):
    cov = evidence['coverage']
    out.write(
        '%s tier=%s seed=%d cases=%d nontrivial=%d outcomes=%d exhaustive=%s '
        'violations=%d wall=%.1fs\n'
        % (evidence['property_id'], evidence['tier'], evidence['seed'],
           cov['evaluations'], cov['distinct_nontrivial'],
           cov['distinct_outcomes'], cov['exhaustive'],
           evidence['violations'], evidence['wall_s']))
    for note in cov.get('skipped_because_internal_api_changed', []):
        out.write('  NOTE function-level spaces skipped (internal API '
                  'changed, not a violation): %s\n' % note)
    for sp in cov['spaces']:
        out.write('  space %-38s size=%-9d nontrivial=%-9s %ss\n'
                  % (sp['name'], sp['size'], sp.get('nontrivial', '-'),
                     sp.get('wall_s', '-')))
    if cov['counters']:
        out.write('  counters: %s\n' % json.dumps(cov['counters']))
