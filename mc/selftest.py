"""setup_cmd: byte-compile nothing, just import every check and run the
engine's self-tests (choice explorer, reference matching model)."""
import importlib, os, sys, glob
HERE = os.path.dirname(os.path.dirname(os.path.abspath(__file__)))
os.environ.setdefault('SPOWTD_VERIF', '1')
sys.path[:0] = [os.environ.get('SPOWTD_REPO', '/repo'), HERE]
from mc.lib import choice
def main():
    # choice explorer: a 3-point tree with 2,3,2 options has 12 leaves
    def run(ch):
        return (ch([0, 1]), ch([0, 1, 2]), ch([0, 1]))
    res, nodes, edges = choice.explore(run)
    assert len(res) == 12 and len({o for _, o in res}) == 12, res
    assert nodes == 1 + 2 + 6 + 12, nodes
    n = 0
    for path in sorted(glob.glob(os.path.join(HERE, 'mc', 'checks', 'c*.py'))):
        mod = importlib.import_module('mc.checks.' + os.path.basename(path)[:-3])
        st = getattr(mod, 'selftest', None)
        if st: st()
        for tier in ('quick', 'thorough'):
            assert mod.spaces(tier), (mod.ID, tier)
        n += 1
    print('selftest ok: %d check modules' % n)
if __name__ == '__main__':
    main()
