"""Regenerates /verif/MANIFEST.json from the check modules' metadata."""
import importlib, json, os, sys
HERE = os.path.dirname(os.path.dirname(os.path.abspath(__file__)))
sys.path.insert(0, HERE)
BASELINE_OFF = ("cd /repo && env -u SPOWTD_VERIF /venv/bin/python -m pytest -ra -q "
                "-p no:cacheprovider --timeout=900 --continue-on-collection-errors")
META = json.load(open(os.path.join(HERE, 'mc', 'manifest_meta.json')))
props = [json.loads(l) for l in open(os.path.join(HERE, 'properties.jsonl'))]
checks, na = [], []
for p in props:
    pid = p['id']
    m = META['checks'].get(pid)
    if m is None or not os.path.exists(os.path.join(HERE, 'mc', 'checks', pid.lower() + '.py')):
        na.append({'property_id': pid, 'reason': META['not_applicable'].get(pid, 'check not built yet (work in progress); see DESIGN.md section 3')})
        continue
    checks.append({
        'property_id': pid,
        'quick_cmd': './check %s --tier quick' % pid,
        'thorough_cmd': './check %s --tier thorough' % pid,
        'evidence_file': '/verif/evidence/%s.json' % pid,
        'replay_cmd_template': './check %s --replay {path}' % pid,
        'engine': 'mc',
        'level_claimed': {'category': m['category'], 'text': m['text'], 'design_ref': m['design_ref']},
        'level_note': m['level_note'],
        'technique': m['technique'],
    })
manifest = {
    'version': 1,
    'setup_cmd': 'cd /verif && /venv/bin/python -B -m mc.selftest',
    'hooks': {
        'guard': 'SPOWTD_VERIF',
        'enable': 'environment variable SPOWTD_VERIF=1 (set by ./check); nothing is built: checks import spowtd from /repo (PYTHONPATH=$SPOWTD_REPO, default /repo) at run time',
        'baseline_off_cmd': BASELINE_OFF,
        'source_commits': META['hook_commits'],
        'add_only': True,
    },
    'engines': [{'name': 'mc', 'path': '/verif/mc', 'serves_properties': [c['property_id'] for c in checks],
                 'kind_free_text': 'hand-written explicit-state / choice-point explorer in Python driving the real spowtd code; exhaustive enumeration of bounded input, schedule, history and fault spaces against reference models'}],
    'checks': checks,
    'not_applicable': na,
    'notes': META['notes'],
}
json.dump(manifest, open(os.path.join(HERE, 'MANIFEST.json'), 'w'), indent=1)
print('checks:', [c['property_id'] for c in checks], 'n/a:', [n['property_id'] for n in na])
