"""C12 - level crossings are exact for the piecewise-linear record."""

import math

import numpy as np

import spowtd.regrid as regrid_mod
import spowtd.fit_offsets as fit_mod

from mc.engine import Space, Result
from mc.lib import crossings
from mc.lib.classify_spaces import exc_site

ID = 'C12'
LEVEL = 'model_checking'
# fewer non-trivial cases than this share of all cases means that the
# exploration has become vacuous (reported as INTERNAL-ERROR, never as a pass)
MIN_NONTRIVIAL_FRACTION = 0.3
RULE = (
    'Every word of the stated lengths over a per-step sample alphabet (grid '
    'levels k*step spelled as float product and as decimal literal, one ulp '
    'below and above each, values within 2e-6 of a level, off-grid values) x grid steps {1, 0.5, 0.1, 0.3, '
    '2.5} x three abscissa patterns (0,1,2..; UNIX epochs 1.58e9+1800 i; '
    'non-uniform) is passed to the real regrid.regrid and '
    'fit_offsets.build_head_mapping.  Oracle: exact rational [lo, hi) '
    'counting per consecutive pair with the ambiguity band of DESIGN 2.3; '
    'each x inside its bracket and equal to the exact crossing to brentq '
    'tolerance; head mapping value = mean of that level\'s crossings.  A '
    'word is a path of the prefix tree (states = samples, transitions = '
    'segments).  Non-trivial = at least one level is crossed.')
ASSUMPTIONS = [
    'ambiguity band: a sample whose exact quotient y/step lies above an integer m but rounds to m '
    'as a double may be counted on either side, consistently for both '
    'adjacent segments',
    'position tolerance 4e-12 + 8 eps |x| + 16 eps |Y| / |dY/dx| (brentq '
    'xtol/rtol and the rounding of y/step)',
]
STEPS = [1.0, 0.5, 0.1, 0.3, 2.5]
XMODES = ['unit', 'epoch', 'nonuniform']
_ALPHA = {}


def alphabet(step, tier):
    key = (step, tier)
    if key in _ALPHA:
        return _ALPHA[key]
    ks = (0, 1, 2, 3) if tier == 'quick' else (-1, 0, 1, 2, 3)
    vals = []
    for k in ks:
        v = k * step
        lit = float(repr(round(k * step, 9)))
        for c in (v, lit):
            for w in (c, math.nextafter(c, -math.inf),
                      math.nextafter(c, math.inf)):
                if w not in vals:
                    vals.append(w)
    for f in (0.4, 1.5, 2.75):
        vals.append(f * step)
    # close to a level (a few 1e-6 of its number) but not on it
    for k in (2, 3):
        vals.append(k * step * (1 + 2e-6))
        vals.append(k * step * (1 - 2e-6))
    _ALPHA[key] = vals
    return vals


def abscissae(mode, n):
    if mode == 'unit':
        return [float(i) for i in range(n)]
    if mode == 'epoch':
        return [1.58e9 + 1800.0 * i for i in range(n)]
    base = [0.0, 0.75, 3.5, 4.0, 10.0, 10.125, 17.0]
    return base[:n]


def decoy():
    from mc.lib import decoy as decoy_mod
    decoy_mod.functions()


def BOUND(tier):
    return {'quick': 'words of length 2..3 over the full alphabet and '
                     'length 4 over the on-grid/ulp symbols, 5 steps x 3 '
                     'abscissa patterns',
            'thorough': 'words of length 2..4 over the full alphabet '
                        '(levels -1..3), 5 steps x 3 abscissa patterns'}[tier]


def word_space(step, mode, length, tier, reduced=False):
    alpha = alphabet(step, tier)
    if reduced:
        alpha = alpha[:len(alpha) - 7][::2] + alpha[-5:]
    size = len(alpha) ** length

    def decode(i):
        ys = []
        for _ in range(length):
            ys.append(alpha[i % len(alpha)])
            i //= len(alpha)
        return {'kind': 'word', 'step': step, 'xmode': mode, 'y': ys}
    return Space('regrid/step=%g/x=%s/len=%d%s' % (
        step, mode, length, '/reduced' if reduced else ''), size, decode,
        '%d symbols' % len(alpha), decoy_every=1024)


def far_alphabet(step):
    """Decimal levels hundreds of steps away from zero, with their
    neighbours: there y / step and y * (1 / step) round differently"""
    vals = []
    for k in (1531, -1526):
        for j in (0, 1):
            lit = float(repr(round((k + j) * step, 9)))
            for w in (lit, math.nextafter(lit, -math.inf),
                      math.nextafter(lit, math.inf)):
                if w not in vals:
                    vals.append(w)
        vals.append(float(repr(round((k + 0.5) * step, 9))))
    return vals


def far_space(step, mode, length):
    alpha = far_alphabet(step)
    # words stay within one of the two level regions (a segment joining the
    # two would cross three thousand levels)
    half = len(alpha) // 2
    size = 2 * half ** length

    def decode(i):
        region = i % 2
        i //= 2
        ys = []
        for _ in range(length):
            ys.append(alpha[region * half + i % half])
            i //= half
        return {'kind': 'word', 'step': step, 'xmode': mode, 'y': ys}
    return Space('regrid/step=%g/x=%s/len=%d/levels around +-1500 steps'
                 % (step, mode, length), size, decode, decoy_every=1024)


def spaces(tier):
    out = []
    from mc.lib import api
    if not api.available(regrid_mod, 'regrid', ('x', 'y', 'y_step')):
        return [Space('regrid is not callable as regrid(x, y, y_step)', 0,
                      lambda i: None)]
    for step in STEPS + [0.2, 0.7]:
        for length in (2, 3):
            out.append(far_space(step, 'unit', length))
    for step in STEPS:
        for mode in XMODES:
            for length in ((2, 3) if tier == 'quick' else (2, 3, 4)):
                out.append(word_space(step, mode, length, tier))
            if tier == 'quick':
                out.append(word_space(step, mode, 4, tier, reduced=True))
    return out


def run_case(case):
    step = case['step']
    y = [float(v) for v in case['y']]
    x = abscissae(case['xmode'], len(y))
    viol = []
    x_arr, y_arr = np.array(x), np.array(y)
    try:
        rep = [(int(n), float(xx)) for n, xx in regrid_mod.regrid(
            x_arr, y_arr, step)]
        # the same arrays again: the caller's data must not have been
        # touched and the answer must not depend on an earlier call
        again = [(int(n), float(xx)) for n, xx in regrid_mod.regrid(
            x_arr, y_arr, step)]
    except Exception as exc:  # pylint: disable=broad-except
        return Result(viol=[('crash:' + exc_site(exc), repr(exc)[:300])],
                      nontrivial=True, outcome='exc')
    if again != rep or list(y_arr) != y or list(x_arr) != x:
        viol.append(('second-call-differs',
                     'step=%r y=%r: first call %r, second call on the same '
                     'arrays %r (arrays afterwards: %r)'
                     % (step, y, rep[:4], again[:4], list(y_arr))))
    if all(float(v).is_integer() for v in x):
        # the same abscissae as whole numbers (epoch seconds are integers in
        # the database): the crossings are the same points
        try:
            rep_i = [(int(n), float(xx)) for n, xx in regrid_mod.regrid(
                np.array([int(v) for v in x], dtype='int64'), y_arr, step)]
        except Exception as exc:  # pylint: disable=broad-except
            rep_i = None
            viol.append(('crash:' + exc_site(exc),
                         'integer abscissae: %r' % (exc,)))
        if rep_i is not None and (
                [n for n, _ in rep_i] != [n for n, _ in rep]
                or any(not abs(a - b) <= 1e-9 * max(1.0, abs(b) * 1e-6)
                       for (_, a), (_, b) in zip(rep_i, rep))):
            viol.append(('integer-abscissae-differ',
                         'step=%r y=%r: with x as int64 %r, with the same x '
                         'as float64 %r' % (step, y, rep_i[:4], rep[:4])))
    why, n_amb = crossings.compare(x, y, step, rep)
    if why:
        viol.append((why[0], 'step=%r x=%r y=%r: %s' % (step, x, y, why[1])))
    # head mapping: mean crossing per level (only where no ambiguity)
    counters = {}
    if n_amb:
        counters['words_with_ambiguous_sample'] = 1
    else:
        try:
            t = np.array(x)
            mapping = fit_mod.build_head_mapping([(t, np.array(y))], step)
        except Exception as exc:  # pylint: disable=broad-except
            viol.append(('crash:' + exc_site(exc), repr(exc)[:300]))
            mapping = None
        if mapping is not None:
            want = crossings.mean_crossings(x, y, step)
            if sorted(mapping) != sorted(want):
                viol.append(('head-mapping-levels',
                             'levels %r expected %r'
                             % (sorted(mapping), sorted(want))))
            else:
                for n, seq in mapping.items():
                    if len(seq) != 1 or seq[0][0] != 0:
                        viol.append(('head-mapping-shape', repr(seq)))
                        break
                    mean, tol = want[n]
                    if abs(seq[0][1] - float(mean)) > tol:
                        viol.append((
                            'head-mapping-mean',
                            'level %d: %r, mean crossing %r (y=%r x=%r)'
                            % (n, seq[0][1], float(mean), y, x)))
                        break
            if any(len([1 for m, _ in rep if m == n]) > 1 for n, _ in rep):
                counters['words_with_repeated_level'] = 1
    return Result(viol=viol, nontrivial=bool(rep),
                  outcome=repr([n for n, _ in rep]), states=len(y),
                  transitions=len(y) - 1, counters=counters,
                  obs={'crossings': rep[:6]})
