"""C18 - the simulated recession curve obeys the water-balance equation."""

import itertools
import os
import sqlite3

import numpy as np
import yaml

import spowtd.simulate_recession as sim_mod
import spowtd.simulate_rise as rise_sim_mod
import spowtd.specific_yield as sy_mod
import spowtd.transmissivity as t_mod

from mc.engine import Space, Result
from mc.lib import classify_spaces as cs
from mc.lib import hydraulics, simdata

ID = 'C18'
LEVEL = 'exploration'
RULE = (
    'Function level: every combination of 7 parameter sets (spline and '
    'PEATCLSM specific yield x spline and PEATCLSM transmissivity; '
    'thorough: all 96 pairs of 12 specific-yield sets and 8 transmissivity '
    'sets) x (ET, '
    'curvature) in {(0, c), (e, 0), (e, c)} x 6 level grids (one of them 1e5 mm down, one a single level) below the '
    'transmissivity ceiling x {ascending, descending} x {grid, every cell '
    'halved} x 2 requested means through the real compute_recession_curve.  '
    'Oracle: cell increments = independent composite Gauss-Legendre '
    'quadrature of Sy / (-ET - curvature x T) with T from its closed form; '
    'time increases as level falls; identical values at shared levels under '
    'reversal and refinement; with zero curvature ET x elapsed time = '
    'storage released according to compute_rise_curve; mean = requested.  '
    'Command level: 3 datasets with time-varying ET (ramp, alternating) x 4 '
    'parameter files x 2 curvatures x {table, --observations} through '
    'main([simulate, recession, ...]); oracle: simulated column = reference '
    'curve with ET averaged over all time steps inside the intervals of '
    'recession_interval; levels in mm from highest to lowest; measured '
    'column = average_recession_time in days.  Non-trivial = grid with at '
    'least 3 levels.')
ASSUMPTIONS = [
    'tolerance 1e-6 of the curve range (scipy quad, default tolerance '
    '1.49e-8, against 5-point composite Gauss-Legendre)',
    'ET averaging: the average over steps [start, thru) of each interval; '
    'the variant that also counts the step starting at the last sample is '
    'accepted (the statement does not separate them)',
]
PARAMS = [('inside', 'field'), ('seven-knots', 'five-knots'),
          ('straddle-top', 'two-knots'), ('published', 'published-high'),
          ('corner', 'other'), ('inside', 'other'),
          ('integer-knots', 'integer')]
GRIDS = {
    'data-range': [15.5, 17.0, 18.25, 19.0, 22.5, 27.0],
    'across-knots': [-40.0, -5.5, 0.0, 14.0, 16.0, 24.0, 36.0],
    'two-levels': [18.0, 21.0],
    'one-level': [18.0],
    'fine': [12.0 + 0.5 * i for i in range(30)],
    # half-millimetre cells a hundred metres down: a cell is 5e-6 of its level
    'far-below': [-100003.0 + 0.5 * i for i in range(8)],
}
ET_CURV = [(0.0, 2.36), (4.15, 0.0), (4.15, 2.36), (0.37, 0.01)]


def param_pairs(tier):
    """quick: 6 chosen pairs; thorough: every (Sy set, T set) pair"""
    if tier == 'quick':
        return list(PARAMS)
    sy = [k for k in list(simdata.SPLINE_SY) + list(simdata.PEATCLSM_SY)
          if k != 'descending']
    # (the 'tiny' transmissivity sets exist for the template round trip of
    # C19; with conductivities of 1e-7 km/d the integrand of the recession
    # curve spans more orders of magnitude than the stated tolerance allows)
    return [(a, b) for a in sy
            for b in list(simdata.SPLINE_T) + list(simdata.PEATCLSM_T)
            if not b.startswith('tiny')]
MEANS = [0.0, 19.0]


def decoy():
    from mc.lib import decoy as decoy_mod
    decoy_mod.functions()


def BOUND(tier):
    return ('%d parameter sets x 4 (ET, curvature) x 6 grids x 2 directions '
            'x 2 refinements x 2 means at function level; 3 datasets x 4 '
            'parameter files x 2 curvatures x 2 output forms at command '
            'level' % len(param_pairs(tier)))


def spaces(tier):
    pairs = param_pairs(tier)
    fn = list(itertools.product(range(len(pairs)), range(len(ET_CURV)),
                                GRIDS, (False, True), (1, 2), MEANS))

    # whole-number grids handed over as integer arrays as well
    fn += [(p_, ec_, g_, d_, 1, 19.0, 'int64')
           for p_ in range(len(pairs)) for ec_ in range(len(ET_CURV))
           for g_ in GRIDS if all(float(z).is_integer() for z in GRIDS[g_])
           for d_ in (False, True)]

    def decode(i):
        p, ec, grid, desc, r, mean = fn[i][:6]
        case = {'kind': 'fn', 'params': list(pairs[p]),
                'et': ET_CURV[ec][0],
                'curvature': ET_CURV[ec][1], 'grid': grid,
                'descending': desc, 'refine': r, 'mean': mean}
        if len(fn[i]) > 6:
            case['dtype'] = fn[i][6]
        return case
    cli = list(itertools.product(range(len(simdata.WORDS)), range(4),
                                 (0.0, 2.36), (False, True)))

    def decode_cli(i):
        which, p, curv, obs = cli[i]
        return {'kind': 'cli', 'dataset': which, 'params': list(PARAMS[p]),
                'curvature': curv, 'observations': obs}
    return [Space('compute_recession_curve/parameters x (ET, curvature) x '
                  'grids x direction x refinement x mean', len(fn), decode),
            Space('main(simulate recession)/datasets x parameter files x '
                  'curvature x form', len(cli), decode_cli)]


def build(params):
    pars = simdata.parameters(*params)
    sy = sy_mod.create_specific_yield_function(dict(pars['specific_yield']))
    tr = pars['transmissivity']
    real_T = t_mod.create_transmissivity_function(dict(tr))
    if tr['type'] == 'peatclsm':
        def T_real(z):
            return real_T(z) * 24 * 3600

        def T_ref(z):
            return hydraulics.peatclsm_T(z, tr['Ksmacz0'], tr['alpha'],
                                         tr['zeta_max_cm']) * 86400.0
        breaks = simdata.sy_breaks(pars)
    else:
        T_real = real_T

        def T_ref(z):
            return hydraulics.spline_T(
                z, tr['zeta_knots_mm'], tr['K_knots_km_d'],
                tr['minimum_transmissivity_m2_d'])
        breaks = simdata.sy_breaks(pars) + list(tr['zeta_knots_mm'])
    return pars, sy, T_real, T_ref, breaks


def reference_curve(sy, T_ref, breaks, grid, et, curv_km, mean):
    def f(z):
        return float(sy(z)) / (-et - curv_km * T_ref(z))
    t = [0.0]
    for a, b in zip(grid, grid[1:]):
        t.append(t[-1] + hydraulics.composite_gl5(f, a, b, breaks, panels=8))
    shift = mean - sum(t) / len(t)
    return [x + shift for x in t]


def refine(grid, r):
    out = []
    for a, b in zip(grid, grid[1:]):
        for k in range(r):
            out.append(a + (b - a) * k / r)
    out.append(grid[-1])
    return out


def run_fn(case):
    pars, sy, T_real, T_ref, breaks = build(case['params'])
    base = list(GRIDS[case['grid']])
    grid = refine(base, case['refine'])
    if case['descending']:
        grid = grid[::-1]
    et, curv = case['et'], case['curvature']
    viol = []

    def real(levels, mean):
        return [float(x) for x in sim_mod.compute_recession_curve(
            specific_yield=sy, transmissivity_m2_d=T_real,
            zeta_grid_mm=np.array(levels, dtype=case.get('dtype', 'float64')),
            mean_elapsed_time_d=mean,
            curvature_km=curv * 1e-3, et_mm_d=et)]
    try:
        t = real(grid, case['mean'])
    except Exception as exc:  # pylint: disable=broad-except
        return Result(viol=[('crash:' + cs.exc_site(exc), repr(exc)[:200])],
                      nontrivial=True, outcome='exc')
    ref = reference_curve(sy, T_ref, breaks, grid, et, curv * 1e-3,
                          case['mean'])
    span = abs(ref[-1] - ref[0]) + 1e-9
    tol = 1e-6 * span
    for j in range(len(grid)):
        if not abs((t[j] - t[0]) - (ref[j] - ref[0])) <= tol:
            viol.append((
                'difference-is-not-the-integral',
                '%r ET=%r curvature=%r: t(%r)-t(%r) = %r, integral of '
                'Sy/(-ET - curvature T) = %r'
                % (case['params'], et, curv, grid[j], grid[0], t[j] - t[0],
                   ref[j] - ref[0])))
            break
    if not abs(sum(t) / len(t) - case['mean']) <= tol + 1e-12:
        viol.append(('mean-not-as-requested', '%r vs %r'
                     % (sum(t) / len(t), case['mean'])))
    by_level = sorted(zip(grid, t))
    sy_nonneg = min(float(sy(z)) for z in refine(sorted(grid), 4)) >= 0
    if sy_nonneg and any(b > a + tol for (_, a), (_, b) in zip(by_level, by_level[1:])):
        viol.append(('time-does-not-increase-as-level-falls',
                     repr(by_level[:4])))
    # reversal and refinement: same values at shared levels
    t_base = real(base, 0.0)
    at = dict(zip(grid, t))
    for z, v in zip(base, t_base):
        if not abs((at[z] - at[base[0]]) - (v - t_base[0])) <= tol:
            viol.append((
                'changes-under-reversal-or-refinement',
                'level %r: %r here, %r on the coarse ascending grid '
                '(relative to level %r)' % (z, at[z] - at[base[0]],
                                           v - t_base[0], base[0])))
            break
    if curv == 0.0:
        W = [float(x) for x in rise_sim_mod.compute_rise_curve(
            sy, np.array(sorted(grid)), 0.0)]
        Wat = dict(zip(sorted(grid), W))
        for z in grid:
            lhs = et * (at[z] - at[grid[0]])
            rhs = -(Wat[z] - Wat[grid[0]])
            if not abs(lhs - rhs) <= 1e-6 * (abs(W[-1] - W[0]) + 1e-9):
                viol.append((
                    'water-balance',
                    'zero curvature: ET x elapsed time = %r mm but storage '
                    'released = %r mm between %r and %r'
                    % (lhs, rhs, grid[0], z)))
                break
    seen = set()
    viol = [v for v in viol if not (v[0] in seen or seen.add(v[0]))]
    return Result(viol=viol, nontrivial=len(grid) >= 3,
                  outcome='%r/%s/%r' % (case['params'], case['grid'], et),
                  obs={'levels': len(grid), 'range_d': t[-1] - t[0]})


def et_averages(connection):
    """(average over [start, thru), average over [start, thru]) in mm/d"""
    cur = connection.cursor()
    rows = cur.execute("""
      SELECT zi.start_epoch, zi.thru_epoch FROM recession_interval AS ri
      JOIN zeta_interval AS zi ON zi.start_epoch = ri.start_epoch
      AND zi.interval_type = 'interstorm'""").fetchall()
    et = dict(cur.execute(
        'SELECT from_epoch, evapotranspiration_mm_h FROM evapotranspiration'))
    (dt,) = cur.execute('SELECT time_step_s FROM time_grid').fetchone()
    cur.close()
    a, b = [], []
    for start, thru in rows:
        for e in range(start, thru + 1, dt):
            if e < thru:
                a.append(et[e])
            if e in et:
                b.append(et[e])
    return (24.0 * sum(a) / len(a), 24.0 * sum(b) / len(b))


def run_cli(case):
    pars, sy, _T_real, T_ref, breaks = build(case['params'])
    db = simdata.materialise(case['dataset'], curvature=case['curvature'])
    ypath = simdata.write_yaml(pars)
    out = os.path.join(cs.tmpdir(), 'simrec-%d.yml' % os.getpid())
    argv = ['simulate', 'recession', db, ypath, '-o', out]
    if case['observations']:
        argv.append('--observations')
    # a second set-curvature: refused today (the first value stays in
    # force); if it were accepted, the new value would be the one to use
    curvature = case['curvature']
    st2, _, _, _ = cs.run_main(['set-curvature', db, '9.75'])
    if st2 == 0:
        curvature = 9.75
    status, _, _, exc = cs.run_main(argv)
    connection = sqlite3.connect(db)
    view = simdata.master_curve(connection, 'recession')
    et_a, et_b = et_averages(connection)
    connection.close()
    os.unlink(db)
    if et_a == 0 and curvature == 0:
        # ET and curvature both zero: outside the property's domain
        if os.path.exists(out):
            os.unlink(out)
        return Result(nontrivial=False, outcome='outside-domain',
                      counters={'cases_with_zero_et_and_zero_curvature': 1})
    if status != 0:
        return Result(viol=[('command-failed', repr(exc)[:300])],
                      nontrivial=True, outcome='exc')
    import gc
    gc.collect()
    with open(out) as f:
        doc = yaml.safe_load(f.read())
    os.unlink(out)
    levels = [z for z, _ in view]                    # ascending
    measured = [v / 86400.0 for _, v in view]
    mean = sum(measured) / len(measured)
    viol = []
    fits = []
    for et in (et_a, et_b):
        ref = reference_curve(sy, T_ref, breaks, levels, et,
                              curvature * 1e-3, mean)
        fits.append(ref)
    span = abs(fits[0][-1] - fits[0][0]) + 1e-9
    tol = 1e-6 * span
    want_levels = levels[::-1]
    want_measured = measured[::-1]

    def matches(sim):
        return any(all(abs(a - b) <= tol for a, b in zip(sim, ref[::-1]))
                   for ref in fits)
    if case['observations']:
        if not isinstance(doc, list) or len(doc) != len(levels):
            viol.append(('vector-shape', repr(doc)[:200]))
        elif not matches(doc):
            viol.append((
                'vector-values',
                'simulated %r; expected (highest level first, ET averaged '
                'over the recession intervals = %r mm/d) %r'
                % (doc[:3], et_a, fits[0][::-1][:3])))
    else:
        if (not isinstance(doc, list) or len(doc) != len(levels) + 1
                or doc[0] != ['Water level, mm', 'Measured elapsed time, d',
                              'Simulated elapsed time, d']):
            viol.append(('table-shape', repr(doc)[:200]))
        else:
            rows = doc[1:]
            if any(not abs(r[0] - z_) <= 1e-9 * (abs(z_) + 1)
                   for r, z_ in zip(rows, want_levels)) or len(rows) != len(
                       want_levels):
                viol.append((
                    'table-levels',
                    'level column %r, expected levels in mm from highest '
                    'to lowest %r' % ([r[0] for r in rows][:4],
                                      want_levels[:4])))
            if any(not abs(r[1] - m) <= 1e-12 * (abs(m) + 1)
                   for r, m in zip(rows, want_measured)):
                viol.append(('table-measured',
                             'measured column %r, expected %r'
                             % ([r[1] for r in rows][:3],
                                want_measured[:3])))
            if not matches([r[2] for r in rows]):
                viol.append((
                    'table-simulated',
                    'simulated column %r; with ET averaged over the '
                    'recession intervals (%r mm/d) the curve is %r'
                    % ([r[2] for r in rows][:3], et_a,
                       fits[0][::-1][:3])))
    return Result(viol=viol, nontrivial=len(levels) >= 3,
                  outcome='%r/%d/%r/%r' % (case['params'], case['dataset'],
                                           case['curvature'],
                                           case['observations']),
                  obs={'levels': len(levels), 'et_mm_d': et_a})


def run_case(case):
    if case['kind'] == 'fn':
        return run_fn(case)
    return run_cli(case)
