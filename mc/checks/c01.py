"""C01 - classification completes; pairs are one-to-one and overlap."""

from mc.lib import classify_spaces as cs

ID = 'C01'
LEVEL = 'model_checking'
WANT = ('C01',)
# fewer non-trivial cases than this share of all cases means that the
# exploration has become vacuous (reported as INTERNAL-ERROR, never as a pass)
MIN_NONTRIVIAL_FRACTION = 0.2
RULE = (
    'Every record over the stated alphabets up to the stated length is run '
    'through the real classify code (match_storms with every proposer '
    'schedule via the SPOWTD_VERIF hook; load_data+classify_intervals on an '
    'in-memory database; main(argv) on real files).  States = nodes of the '
    'proposer-schedule tree (function level) or samples of the record (DB '
    'level); a case is non-trivial if at least one storm and rise overlap '
    '(function level) or at least one pair / interstorm interval is recorded '
    '(DB level).  Cases are distinct by construction (each index of a '
    'product space is decoded once).')
ASSUMPTIONS = [
    'records longer than the bound and values other than the three classes '
    'per quantity (below / exactly at / above threshold) are not covered',
    'the reference model reads the loaded tables (water_level, '
    'rainfall_intensity, grid_time); correctness of load is C10',
    'a load that is refused puts the record outside the quantifier '
    '("every dataset that loads"); such cases are counted, not judged',
]


def BOUND(tier):
    return {
        'quick': 'match_storms: all records L<=9 x all schedules; DB: '
                 'ternary n<=4 (<=2 gaps) on 4 (dt,s,j) combos, binary n<=7; '
                 'CLI: ternary n<=3',
        'thorough': 'match_storms: all records L<=11 x all schedules; DB: '
                    'ternary n<=5 (all gap masks) on 5 combos, n=6 (<=1 gap) '
                    'on one combo, binary n<=9; CLI: ternary n<=4',
    }[tier]


def decoy():
    from mc.lib import decoy as decoy_mod
    decoy_mod.classification().close()


def selftest():
    cs.selftest()


def spaces(tier):
    out = []
    fn_ok = cs.fn_api_ok()
    if tier == 'quick':
        out += [cs.fn_space(L) for L in range(2, 10) if fn_ok]
        for n in (2, 3, 4):
            for combo in cs.COMBOS[:4]:
                out.append(cs.db_space(n, combo, 2))
        for n in (5, 6, 7):
            out.append(cs.db_space(n, cs.COMBOS[n % 4], 0, binary=True))
        for n in (2, 3):
            out.append(cs.db_space(n, cs.COMBOS[n % 2], 1, cli=True))
    else:
        out += [cs.fn_space(L) for L in range(2, 12) if fn_ok]
        for n in (2, 3, 4, 5):
            for combo in cs.COMBOS:
                out.append(cs.db_space(n, combo, 3))
        out.append(cs.db_space(6, cs.COMBOS[2], 1))
        for n in (5, 6, 7, 8, 9):
            out.append(cs.db_space(n, cs.COMBOS[n % 4], 0, binary=True))
        for n in (2, 3, 4):
            out.append(cs.db_space(n, cs.COMBOS[n % 2], 2, cli=True))
    for combo in cs.COMBOS[2:4]:
        out.append(cs.db_space(4, combo, 0, base_level=-171.6))
    for combo in cs.INEXACT:
        out.append(cs.db_space(4, combo, 1))
    out.append(cs.db_space(2, cs.EXTREME[0], 0, cli=True))
    if fn_ok:
        out.append(cs.fn_space(6, stretch=60))
    for combo in cs.EXTREME:
        out.append(cs.db_space(3, combo, 1))
        if tier == 'thorough':
            out.append(cs.db_space(5, combo, 1))
    for combo in cs.LONGSTEP:
        out.append(cs.db_space(3 if tier == 'quick' else 4, combo, 1))
    out.append(cs.db_space(3 if tier == 'quick' else 4, cs.COMBOS[1], 1,
                           int_thresholds=True))
    for k, t0 in enumerate(cs.FAR_T0):
        out.append(cs.db_space(3 if tier == 'quick' else 4, cs.COMBOS[k], 1,
                               t0=t0))
    return out


def run_case(case):
    viol, info = cs.run_case_for(case, WANT)
    return cs.to_result(viol['C01'], info)
