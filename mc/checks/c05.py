"""C05 - alignment offsets minimise the squared spread of crossing values."""

import copy
from fractions import Fraction

import numpy as np

import spowtd.fit_offsets as fit_mod

from mc.engine import Space, Result, InternalError
from mc.lib import classify_spaces as cs
from mc.lib import events

ID = 'C05'
LEVEL = 'exploration'
# fewer non-trivial cases than this share of all cases means that the
# exploration has become vacuous (reported as INTERNAL-ERROR, never as a pass)
MIN_NONTRIVIAL_FRACTION = 0.5
RULE = (
    'Finite lattice of least-squares problems for the real '
    'fit_offsets.find_offsets: EVERY presence pattern of up to 4 series x 4 '
    'levels whose overlap graph is connected (levels crossed by a single '
    'series included), and for each pattern a basis of the value space (one '
    'unit vector per present crossing: the offsets are a linear function of '
    'the crossing values for a fixed pattern, so agreement on a basis plus '
    'the dense vectors below decides all values) plus dense value vectors '
    'over {0,1,3,7} at scales 1, 3600 and 1e6; and chains, stars and ladders '
    'of every size from 2 to 160 (400) series, and four long series sharing '
    '100 or 1000 levels followed by a chain of up to 400 (singular values '
    'of the normal equations spread over more than 8 orders of magnitude), '
    'plus six problems with 1001..1500 series, judged by the zero-residual-sum condition.  Oracle: exact rational '
    'solution of the normal equations written from the statement (residuals '
    'of every series sum to zero), uniqueness (rank n-1), agreement of the '
    'returned offsets up to a common shift to 1e-9 of the value scale.  '
    'Table level: for every event-word dataset, the residual sums formed '
    'from rising_/recession_interval(_zeta) and the master-curve views are '
    'zero for every interval; the same holds as a state invariant after '
    'every sequence of up to 4 (5) workflow steps from one loaded dataset.  '
    'Non-trivial = three or more series (more '
    'than one unknown) or a dataset with both curves.')
ASSUMPTIONS = [
    'linearity argument: for a fixed presence pattern find_offsets solves a '
    'linear system whose right-hand side is linear in the crossing values; '
    'a non-linear defect is only seen through the dense vectors',
    'tolerance 1e-9 x (largest crossing value, at least 1) x number of '
    'levels',
]
DENSE = [lambda i, h: (0, 1, 3, 7)[(2 * i + 3 * h + i * h) % 4],
         lambda i, h: (7, 3, 0, 1)[(i * i + h) % 4] + (i == h)]
SCALES = [1.0, 3600.0, 1e6]
_PATTERNS = {}
_SOLVER = {}
CONFIGS = [('uniform', 2.0, 3600, 1.0), ('convex', 0.5, 1800, 0.5),
           ('concave', 2.0, 1200, 0.3)]
A0 = 16


def decoy():
    from mc.lib import decoy as decoy_mod
    decoy_mod.workflow()
    decoy_mod.functions()


def BOUND(tier):
    return {
        'quick': 'all connected presence patterns up to 4 series x 4 levels; '
                 'tables of event words (S D)^2 on '
                 '3 configurations',
        'thorough': 'all connected presence patterns up to 4 x 4; tables of '
                    'event words (S D)^m, m<=3, on 3 configurations',
    }[tier]


def patterns(n, m):
    """Presence patterns (tuple of per-level frozensets of series) with all
    n series in one connected group of shared levels and all m levels
    non-empty"""
    key = (n, m)
    if key in _PATTERNS:
        return _PATTERNS[key]
    out = []
    for bits in range(2 ** (n * m)):
        levels = []
        ok = True
        for h in range(m):
            members = [i for i in range(n) if (bits >> (h * n + i)) & 1]
            if not members:
                ok = False
                break
            levels.append(members)
        if not ok:
            continue
        shared = [s for s in levels if len(s) >= 2]
        if set().union(*shared) != set(range(n)) if shared else True:
            continue
        # connectivity over shared levels
        comp = set(shared[0])
        changed = True
        while changed:
            changed = False
            for s in shared:
                if comp & set(s) and not set(s) <= comp:
                    comp |= set(s)
                    changed = True
        if comp != set(range(n)):
            continue
        out.append(bits)
    _PATTERNS[key] = out
    return out


def n_variants(n, m, bits):
    present = bin(bits).count('1')
    return present + len(DENSE) * len(SCALES)


def pattern_space(n, m):
    pats = patterns(n, m)
    offsets = []
    total = 0
    for bits in pats:
        offsets.append(total)
        total += n_variants(n, m, bits)
    import bisect

    def decode(i):
        k = bisect.bisect_right(offsets, i) - 1
        return {'kind': 'pattern', 'n': n, 'm': m, 'bits': pats[k],
                'variant': i - offsets[k]}
    return Space('find_offsets/%d series x %d levels' % (n, m), total,
                 decode, '%d connected presence patterns' % len(pats),
                 decoy_every=4096)


TOPOLOGIES = ['chain', 'star', 'ladder']


def big_space(max_n):
    """Large overlap graphs of fixed shape: every size from 2 to max_n x 3
    shapes x 2 value patterns.  chain: series i shares exactly one level
    with series i+1 (worst conditioned); star: every series shares one level
    with series 0; ladder: chain with a second shared level per pair"""
    index = [(topo, n, v) for topo in TOPOLOGIES for n in range(2, max_n + 1)
             for v in (0, 1)]
    # four long series sharing H levels followed by a chain: the largest
    # spread of singular values the normal equations meet in practice
    index += [('head%d+chain' % H, n, v) for H in (100, 1000)
              for n in range(8, 401, 8) for v in (0, 1)]
    # a few problems far larger than anything else (a code path chosen by
    # problem size would otherwise never run)
    index += [(topo, n, 1) for topo in ('chain', 'head100+chain')
              for n in (1001, 1100, 1500)]

    def decode(i):
        topo, n, v = index[i]
        return {'kind': 'big', 'topology': topo, 'n': n, 'values': v}
    return Space('find_offsets/chains, stars and ladders of 2..%d series'
                 % max_n, len(index), decode, decoy_every=32)


def run_big(case):
    n, topo, v = case['n'], case['topology'], case['values']
    mapping = {}

    def val(i, h):
        if v == 0:
            return float((7 * i + 3 * h) % 11) * 3600.0
        return float((i * i + 5 * h) % 13) + 0.25 * i
    first = 0
    if topo.startswith('head'):
        H = int(topo[4:topo.index('+')])
        for h in range(H):
            mapping[100000 + h] = [(j, val(j, h)) for j in range(4)]
        first = 3
    for i in range(first, n - 1):
        j = 0 if topo == 'star' else i
        levels = [2 * i] + ([2 * i + 1] if topo == 'ladder' else [])
        for h in levels:
            mapping[h] = [(j, val(j, h)), (i + 1, val(i + 1, h))]
    try:
        ids, offsets = fit_mod.find_offsets(copy.deepcopy(mapping))
    except Exception as exc:  # pylint: disable=broad-except
        return Result(viol=[('crash:' + cs.exc_site(exc), repr(exc)[:200])],
                      nontrivial=True, outcome='exc')
    viol = []
    if list(ids) != list(range(n)):
        viol.append(('series-ids', 'returned ids %r' % (list(ids)[:8],)))
    else:
        off = [float(o) for o in offsets]
        scale = max([abs(t) for seq in mapping.values() for _, t in seq]
                    + [abs(o) for o in off] + [1.0])
        tol = 1e-8 * scale * n
        sums = [0.0] * n
        for h, seq in mapping.items():
            mean = sum(off[i] + t for i, t in seq) / len(seq)
            for i, t in seq:
                sums[i] += off[i] + t - mean
        worst = max(range(n), key=lambda i: abs(sums[i]))
        if not abs(sums[worst]) <= tol:
            viol.append((
                'residuals-do-not-sum-to-zero',
                '%s of %d series: residuals of series %d sum to %r '
                '(tolerance %.3g): the offsets do not minimise the spread'
                % (topo, n, worst, sums[worst], tol)))
    return Result(viol=viol, nontrivial=n >= 3,
                  outcome='%s/%d' % (topo, n), obs={'n': n})


def event_space(pairs, config):
    size, decode_word = events.word_space_events(pairs)

    def decode(i):
        return {'kind': 'tables', 'config': list(config),
                'word': decode_word(i)}
    return Space('rise+recession tables/(S D)^%d/%s Sy=%g dt=%d step=%g'
                 % ((pairs,) + tuple(config)), size, decode)


def spaces(tier):
    out = []
    dims = [(2, 1), (2, 2), (2, 3), (2, 4), (3, 1), (3, 2), (3, 3), (3, 4),
            (4, 1), (4, 2), (4, 3), (4, 4)]
    from mc.lib import api
    fo_ok = api.available(fit_mod, 'find_offsets', ('head_mapping',))
    for n, m in dims:
        if fo_ok:
            out.append(pattern_space(n, m))
    if fo_ok:
        out.append(big_space(160 if tier == 'quick' else 400))
    for config in CONFIGS:
        out.append(event_space(2, config))
    from mc.checks import c13
    out.append(c13.sequence_space(4 if tier == 'quick' else 5))
    if tier == 'thorough':
        for config in CONFIGS:
            out.append(event_space(3, config))
    return out


def values_for(case):
    n, m, bits = case['n'], case['m'], case['bits']
    entries = [(h, i) for h in range(m) for i in range(n)
               if (bits >> (h * n + i)) & 1]
    v = case['variant']
    t = {}
    if v < len(entries):
        for e in entries:
            t[e] = 1.0 if e == entries[v] else 0.0
    else:
        v -= len(entries)
        dense = DENSE[v % len(DENSE)]
        scale = SCALES[v // len(DENSE)]
        for (h, i) in entries:
            t[(h, i)] = dense(i, h) * scale
    return entries, t


def exact_offsets(n, entries, t):
    """Exact minimiser with the last series fixed at 0; also checks rank"""
    levels = {}
    for (h, i) in entries:
        levels.setdefault(h, []).append(i)
    shared = {h: s for h, s in levels.items() if len(s) >= 2}
    ref = n - 1
    unknowns = list(range(n - 1))
    A = [[Fraction(0)] * (n - 1) for _ in unknowns]
    b = [Fraction(0)] * (n - 1)
    for i in unknowns:
        for h, s in shared.items():
            if i not in s:
                continue
            w = Fraction(1, len(s))
            # o_i + t_ih - mean_j(o_j + t_jh) summed over h
            A[i][i] += 1
            b[i] -= Fraction(t[(h, i)])
            for j in s:
                if j != ref:
                    A[i][j] -= w
                b[i] += w * Fraction(t[(h, j)])
    # Gaussian elimination
    k = len(unknowns)
    M = [row[:] + [b[r]] for r, row in enumerate(A)]
    for c in range(k):
        piv = next((r for r in range(c, k) if M[r][c] != 0), None)
        if piv is None:
            return None
        M[c], M[piv] = M[piv], M[c]
        for r in range(k):
            if r != c and M[r][c] != 0:
                f = M[r][c] / M[c][c]
                M[r] = [x - f * y for x, y in zip(M[r], M[c])]
    return [M[r][k] / M[r][r] for r in range(k)] + [Fraction(0)], shared


def run_pattern(case):
    n = case['n']
    entries, t = values_for(case)
    mapping = {}
    for (h, i) in entries:
        mapping.setdefault(100 + h, []).append((i, t[(h, i)]))
    viol = []
    try:
        ids, offsets = fit_mod.find_offsets(copy.deepcopy(mapping))
    except Exception as exc:  # pylint: disable=broad-except
        return Result(viol=[('crash:' + cs.exc_site(exc), repr(exc)[:200])],
                      nontrivial=True, outcome='exc')
    exact = exact_offsets(n, entries, t)
    if exact is None:
        raise InternalError('reference system singular for a connected '
                            'pattern: %r' % (case,))
    want, shared = exact
    if list(ids) != list(range(n)):
        viol.append(('series-ids', 'returned ids %r, expected %r'
                     % (list(ids), list(range(n)))))
    else:
        scale = max([abs(v) for v in t.values()] + [1.0])
        tol = 1e-9 * scale * max(len(shared), 1)
        got = [float(o) - float(offsets[-1]) for o in offsets]
        for i in range(n):
            if not abs(got[i] - float(want[i])) <= tol:
                viol.append((
                    'offsets-not-least-squares',
                    'series %d: offset %r (relative to the last series), '
                    'exact minimiser %r; levels %r values %r'
                    % (i, got[i], float(want[i]),
                       {h: s for h, s in shared.items()},
                       {k: v for k, v in t.items() if v})))
                break
        if not viol and all(float(v).is_integer() for v in t.values()):
            # the same whole-number crossing values as Python integers
            as_int = {h: [(i, int(v)) for i, v in seq]
                      for h, seq in mapping.items()}
            try:
                _, off_i = fit_mod.find_offsets(as_int)
                got_i = [float(o) - float(off_i[-1]) for o in off_i]
                if any(not abs(a - b) <= tol for a, b in zip(got_i, got)):
                    viol.append((
                        'integer-values-give-other-offsets',
                        'values %r as integers: offsets %r, as floats %r'
                        % ({k: v for k, v in t.items() if v}, got_i, got)))
            except Exception as exc:  # pylint: disable=broad-except
                viol.append(('crash:' + cs.exc_site(exc),
                             'integer crossing values: %r' % (exc,)))
        # residual sums
        for i in range(n):
            total = 0.0
            for h, s in shared.items():
                if i in s:
                    mean = sum(float(offsets[j]) + t[(h, j)] for j in s) \
                        / len(s)
                    total += float(offsets[i]) + t[(h, i)] - mean
            if not abs(total) <= tol:
                viol.append(('residuals-do-not-sum-to-zero',
                             'series %d: sum of residuals %r' % (i, total)))
                break
    return Result(viol=viol, nontrivial=n >= 3,
                  outcome=repr([round(float(o), 6) for o in offsets]),
                  obs={'offsets': [float(o) for o in offsets]})


def run_tables(case):
    shape, sy, dt, step = case['config']
    ds = events.build([tuple(e) for e in case['word']], shape, sy, dt, A0)
    if ds is None:
        return Result(nontrivial=False, outcome='outside-family',
                      counters={'words_outside_the_truth_family': 1})
    # perturb the levels so that pieces do NOT lie on one curve: residuals
    # are then non-zero and only their per-interval sums vanish
    lv = list(ds['level'])
    for k in range(len(lv)):
        lv[k] += 0.03125 * ((k * 7) % 5 - 2)
    ds['level'] = lv
    try:
        connection, errors = events.workflow_db(ds, step)
    except Exception as exc:  # pylint: disable=broad-except
        return Result(nontrivial=False, outcome='no-classification',
                      counters={'workflow_failed_before_curves:'
                                + cs.exc_site(exc): 1})
    try:
        t = events.curve_tables(connection)
    finally:
        connection.close()
    viol, done = residual_violations(t)
    return Result(viol=viol, nontrivial=done == 2,
                  outcome=repr((len(t['rising_interval']),
                                len(t['recession_interval']))),
                  obs={'rise_intervals': len(t['rising_interval']),
                       'recession_intervals': len(t['recession_interval'])})


def residual_violations(t):
    viol = []
    done = 0
    for name, ivl, zeta, avg in (
            ('rise', 'rising_interval', 'rising_interval_zeta',
             'average_rising_depth'),
            ('recession', 'recession_interval', 'recession_interval_zeta',
             'average_recession_time')):
        if not t[ivl]:
            continue
        done += 1
        off = dict(t[ivl])
        by_level = {}
        for start, n, v in t[zeta]:
            by_level.setdefault(n, []).append((start, v))
        curve = {}
        for z, v in t[avg]:
            curve[int(round(z / t['grid_step']))] = v
        scale = max([abs(v) for _, _, v in t[zeta]] + [1.0])
        tol = 1e-9 * scale * max(len(by_level), 1)
        nonzero = 0.0
        for start in off:
            total = 0.0
            for n, items in by_level.items():
                for s2, v in items:
                    if s2 == start:
                        if n not in curve:
                            viol.append(('level-missing-from-view',
                                         '%s level %d' % (name, n)))
                            continue
                        r = off[start] + v - curve[n]
                        total += r
                        nonzero = max(nonzero, abs(r))
            if not abs(total) <= tol:
                viol.append((
                    'table-residuals-do-not-sum-to-zero:' + name,
                    '%s interval %d: residuals against the master curve sum '
                    'to %r (tolerance %.3g)' % (name, start, total, tol)))
                break
    seen = set()
    viol = [v for v in viol if not (v[0] in seen or seen.add(v[0]))]
    return viol, done


def run_sequence(case):
    import sqlite3
    from mc.checks import c13
    blob = c13.state_after(case['steps'])
    connection = sqlite3.connect(':memory:')
    connection.deserialize(blob)
    try:
        t = events.curve_tables(connection)
    finally:
        connection.close()
    viol, done = residual_violations(t)
    viol = [(sig, 'after the steps %r: %s' % (case['steps'], msg))
            for sig, msg in viol]
    return Result(viol=viol, nontrivial=done > 0, outcome=str(done),
                  states=len(case['steps']) + 1,
                  transitions=len(case['steps']),
                  counters={'sequences_ending_in_a_state_with_curves':
                            int(done > 0)})


def run_case(case):
    if case['kind'] == 'pattern':
        return run_pattern(case)
    if case['kind'] == 'sequence':
        return run_sequence(case)
    if case['kind'] == 'big':
        return run_big(case)
    return run_tables(case)
