"""C16 - PEATCLSM functions follow the published formulation."""

import itertools
import math

import numpy as np

import spowtd.specific_yield as sy_mod
import spowtd.transmissivity as t_mod

from mc.engine import Space, Result
from mc.lib import hydraulics
from mc.lib.classify_spaces import exc_site

ID = 'C16'
LEVEL = 'exploration'
RULE = (
    'Finite lattice of parameter sets: (sd, theta_s, b, psi_s) on {0.004, '
    '0.05, 0.162, 1, 2} x {0.01, 0.5, 0.88, 1} x {0.01, 1, 7.4, 20} x {-1, -0.1, '
    '-0.024, -0.01} (the corners and interior of the bounds written to the '
    'PEST control file; thorough: a 6^4 lattice) through the real '
    'PeatclsmSpecificYield; levels: all 201 knots, all mid-points, beyond '
    'both ends.  Oracle: vectorised re-derivation of the Dettmann-Bechtold '
    'discretisation (erf-based normal CDF, broadcasting instead of loops), '
    'linear in between, constant beyond; for the published set also a '
    'line-by-line Python port of the shipped R script (np.allclose, the '
    'repository\'s own tolerance).  Transmissivity: (Ksmacz0, alpha, '
    'zeta_max) lattice x levels below zeta_max against the closed formula '
    'to 1e-12 relative, ValueError strictly above zeta_max.  Non-trivial = '
    'every parameter set (each evaluates >= 400 levels).')
ASSUMPTIONS = [
    'R is not installed: the port of peatclsm_hydraulic_functions.R is '
    'assumed faithful (it sums 200 layers where spowtd sums 201; the '
    'difference is below the allclose tolerance at sd = 0.162)',
    'nothing is claimed between lattice points of the continuous parameters',
]
SD = [0.004, 0.05, 0.162, 1.0, 2.0]
THETA = [0.01, 0.5, 0.88, 1.0]
B = [0.01, 1.0, 7.4, 20.0]
PSI = [-1.0, -0.1, -0.024, -0.01]
SD6 = [0.001, 0.004, 0.02, 0.05, 0.162, 0.5, 1.0, 2.0]
THETA6 = [0.01, 0.2, 0.5, 0.7, 0.88, 1.0]
B6 = [0.01, 0.5, 1.0, 3.0, 7.4, 20.0]
PSI6 = [-1.0, -0.3, -0.1, -0.05, -0.024, -0.01]
KS = [1e-4, 7.3, 1e5]
ALPHA = [1.000001, 1.5, 3.0, 20.0]
ZMAX = [-20.0, 1.0, 5.0, 150.0]


def BOUND(tier):
    return ('%d specific-yield parameter sets + the published set; %d '
            'transmissivity parameter sets x 9 levels'
            % (320 if tier == 'quick' else 1728,
               len(KS) * len(ALPHA) * len(ZMAX)))


def spaces(tier):
    if tier == 'quick':
        sets = list(itertools.product(SD, THETA, B, PSI))
    else:
        sets = list(itertools.product(SD6, THETA6, B6, PSI6))
    sets = [(0.162, 0.88, 7.4, -0.024)] + sets

    def decode(i):
        sd, th, b, psi = sets[i]
        return {'kind': 'sy', 'sd': sd, 'theta_s': th, 'b': b, 'psi_s': psi,
                'published': i == 0}
    tsets = list(itertools.product(KS, ALPHA, ZMAX))

    def decode_t(i):
        k, a, z = tsets[i]
        return {'kind': 'T', 'Ksmacz0': k, 'alpha': a, 'zeta_max_cm': z}
    return [Space('PeatclsmSpecificYield/parameter lattice', len(sets),
                  decode),
            Space('PeatclsmTransmissivity/parameter lattice', len(tsets),
                  decode_t)]


def run_sy(case):
    pars = {k: case[k] for k in ('sd', 'theta_s', 'b', 'psi_s')}
    try:
        # a function with the same soil parameters but another sd is built
        # first in the same process: nothing may leak between instances
        decoy = dict(pars, sd=0.3 if pars['sd'] != 0.3 else 0.2)
        sy_mod.create_specific_yield_function(dict(decoy, type='peatclsm'))
        sy = sy_mod.create_specific_yield_function(dict(pars,
                                                        type='peatclsm'))
    except Exception as exc:  # pylint: disable=broad-except
        return Result(viol=[('crash:' + exc_site(exc),
                             '%r: %r' % (pars, exc))],
                      nontrivial=True, outcome='exc')
    knots, want = hydraulics.peatclsm_sy_knots(**pars)
    viol = []
    scale = max(np.max(np.abs(want)), 1e-300)
    got = np.asarray(sy(knots), dtype=float)
    err = np.max(np.abs(got - want))
    if not err <= 1e-10 * scale:
        k = int(np.argmax(np.abs(got - want)))
        viol.append(('knot-values-differ-from-formulation',
                     '%r: Sy(%r mm) = %r, discretised profile gives %r'
                     % (pars, knots[k], got[k], want[k])))
    mids = 0.5 * (knots[1:] + knots[:-1])
    got_m = np.asarray(sy(mids), dtype=float)
    want_m = 0.5 * (want[1:] + want[:-1])
    if not np.max(np.abs(got_m - want_m)) <= 1e-10 * scale:
        viol.append(('not-linear-between-knots', repr(pars)))
    for z, w in ((knots[0] - 5, want[0]), (knots[0] - 5000, want[0]),
                 (knots[-1] + 5, want[-1]), (knots[-1] + 5000, want[-1])):
        if not abs(float(sy(z)) - w) <= 1e-10 * scale:
            viol.append(('not-constant-beyond-table',
                         '%r: Sy(%r) = %r, end value %r'
                         % (pars, z, float(sy(z)), w)))
    if case.get('published') or case['sd'] == 1.0:
        from mc.lib import dumps
        status, exc, rows, _ = dumps.run_dump(
            'specific-yield', full_parameters(sy=pars), -120.0, 120.0, 9)
        if status != 0:
            viol.append(('dump-failed', repr(exc)))
        else:
            for (level_cm, value), wl_cm in zip(rows, np.linspace(
                    -120.0, 120.0, 9)):
                want_v = float(np.interp(
                    min(max(wl_cm * 10.0, knots[0]), knots[-1]), knots,
                    want))
                if not abs(level_cm - wl_cm) <= 1e-9 * (abs(wl_cm) + 1) \
                        or not abs(value - want_v) <= 1e-10 * scale:
                    viol.append(('dump-row',
                                 'specific-yield dump row (%r cm, %r), '
                                 'expected (%r cm, %r)'
                                 % (level_cm, value, wl_cm, want_v)))
                    break
    if case.get('published'):
        wl, ref = hydraulics.r_script_sy()
        if not np.allclose(np.array(wl) * 1000, knots):
            viol.append(('r-levels', 'knot levels differ from the R table'))
        if not np.allclose(np.asarray(sy(np.array(wl) * 1000)), ref):
            viol.append(('differs-from-reference-R-implementation',
                         'max difference %r' % float(np.max(np.abs(
                             np.asarray(sy(np.array(wl) * 1000)) - ref)))))
    seen = set()
    viol = [v for v in viol if not (v[0] in seen or seen.add(v[0]))]
    return Result(viol=viol, nontrivial=True,
                  outcome='%.6g' % float(got[100]),
                  counters={'levels_evaluated': 405},
                  obs={'Sy_at_0': float(got[100]), 'max_abs_err': float(err)})


def run_T(case):
    pars = {k: case[k] for k in ('Ksmacz0', 'alpha', 'zeta_max_cm')}
    T = t_mod.create_transmissivity_function(dict(pars, type='peatclsm'))
    zmax_mm = case['zeta_max_cm'] * 10.0
    viol = []
    below = [zmax_mm - d for d in (1e-3, 0.5, 10.0, 100.0, 1000.0, 15000.0)]
    for z in below:
        want = hydraulics.peatclsm_T(z, **pars)
        for form in (z, np.array([z]), [z]):
            try:
                got = float(np.asarray(T(form)).ravel()[0])
                if isinstance(form, np.ndarray) and float(form[0]) != z:
                    viol.append(('caller-array-overwritten',
                                 'after T(array) the caller\'s level reads '
                                 '%r, it was %r' % (float(form[0]), z)))
            except Exception as exc:  # pylint: disable=broad-except
                viol.append(('crash:' + exc_site(exc),
                             'T(%r) with %r: %r' % (form, pars, exc)))
                continue
            if not abs(got - want) <= 1e-12 * abs(want):
                viol.append(('formula', 'T(%r) = %r, formula gives %r (%r)'
                             % (z, got, want, pars)))
    for z in (zmax_mm + 1e-3, zmax_mm + 10.0, zmax_mm + 1e4):
        for form in (z, np.array([zmax_mm - 50.0, z])):
            try:
                got = T(form)
            except ValueError:
                continue
            except Exception as exc:  # pylint: disable=broad-except
                viol.append(('wrong-refusal', repr(exc)[:100]))
                continue
            viol.append(('level-above-zeta-max-accepted',
                         'T(%r) = %r with zeta_max = %r cm'
                         % (form, got, case['zeta_max_cm'])))
    viol += dump_T_violations(pars)
    seen = set()
    viol = [v for v in viol if not (v[0] in seen or seen.add(v[0]))]
    return Result(viol=viol, nontrivial=True,
                  outcome=repr(sorted(pars.items())),
                  counters={'levels_evaluated': 24})


def full_parameters(sy=None, tr=None):
    return {'specific_yield': dict(sy or {'sd': 0.162, 'theta_s': 0.88,
                                          'b': 7.4, 'psi_s': -0.024},
                                   type='peatclsm'),
            'transmissivity': dict(tr or {'Ksmacz0': 7.3, 'alpha': 3,
                                          'zeta_max_cm': 1.0},
                                   type='peatclsm')}


def dump_T_violations(pars):
    """`spowtd plot transmissivity --dump` with PEATCLSM parameters: rows
    pair each level with the formula; a range reaching above zeta_max is
    refused (non-zero exit)"""
    from mc.lib import dumps
    out = []
    zmax = pars['zeta_max_cm']
    full = full_parameters(tr=pars)
    status, exc, rows, _ = dumps.run_dump('transmissivity', full,
                                          zmax - 90.0, zmax - 0.5, 6)
    if status != 0:
        out.append(('dump-failed', '%r: %r' % (pars, exc)))
    else:
        want_levels = list(np.linspace(zmax - 90.0, zmax - 0.5, 6))
        for (level_cm, value), wl in zip(rows, want_levels):
            want = hydraulics.peatclsm_T(wl * 10.0, **pars)
            if not abs(level_cm - wl) <= 1e-9 * (abs(wl) + 1) or \
                    not abs(value - want) <= 1e-12 * abs(want):
                out.append(('dump-row',
                            'dump row (%r cm, %r), expected (%r cm, %r) for '
                            '%r' % (level_cm, value, wl, want, pars)))
                break
        if len(rows) != 6:
            out.append(('dump-rows', '%d rows' % len(rows)))
    status, exc, rows, text = dumps.run_dump('transmissivity', full,
                                             zmax - 20.0, zmax + 5.0, 6)
    if status == 0:
        out.append(('dump-above-zeta-max-not-refused',
                    'plot transmissivity up to %r cm with zeta_max = %r cm '
                    'exited with status 0' % (zmax + 5.0, zmax)))
    return out


def run_case(case):
    if case['kind'] == 'sy':
        return run_sy(case)
    return run_T(case)
