"""C02 - the recorded matching is stable and storm-optimal."""

from mc.lib import classify_spaces as cs
from mc.lib import matching

ID = 'C02'
LEVEL = 'model_checking'
WANT = ('C02',)
# fewer non-trivial cases than this share of all cases means that the
# exploration has become vacuous (reported as INTERNAL-ERROR, never as a pass)
MIN_NONTRIVIAL_FRACTION = 0.1
RULE = (
    'Abstract instances: every bipartite candidate graph up to the stated '
    'size, every strict order of each storm\'s candidates, every weak (or '
    'strict) order of each rise\'s storms, and for each instance EVERY '
    'proposer schedule of the real find_stable_matching (hook); oracle = no '
    'blocking pair as the statement defines it, and, without ties, equality '
    'with the storm-optimal stable matching found by brute force over all '
    'matchings, identical across schedules.  Records: every (rain, '
    'increment) bit record up to the stated length through match_storms '
    '(all schedules) and through load+classify, preferences recomputed from '
    'the record by the reference (durations in steps, start offsets).  '
    'States/transitions = nodes/edges of the schedule trees.  Non-trivial = '
    'some rise has two or more candidate storms (contention).')
ASSUMPTIONS = [
    'graphs larger than 3x3 are reached only through the record spaces',
    'storm preferences are strict at the abstract level (list order); ties '
    'between a storm\'s candidates arise in the record spaces',
]
_CACHE = {}


def BOUND(tier):
    return {
        'quick': 'graphs <=2x3, 3x2 with weak rise orders and 3x3 strict, '
                 'all schedules; records L<=9 all schedules; DB binary n<=7',
        'thorough': 'all graphs <=3x3 with weak rise orders, all schedules; '
                    'records L<=11 all schedules; DB binary n<=9',
    }[tier]


def decoy():
    from mc.lib import decoy as decoy_mod
    decoy_mod.classification().close()


def selftest():
    cs.selftest()


def inst(ns, nr, ties):
    key = (ns, nr, ties)
    if key not in _CACHE:
        _CACHE[key] = matching.InstanceSpace(ns, nr, ties)
    return _CACHE[key].space()


def spaces(tier):
    out = []
    fn_ok = cs.fn_api_ok()
    abs_ok = cs.matching_api_ok()
    small = [(1, 1), (1, 2), (2, 1), (2, 2), (1, 3), (3, 1), (2, 3), (3, 2)]
    for ns, nr in small:
        if abs_ok:
            out.append(inst(ns, nr, True))
    from mc.lib import api
    import spowtd.classify as classify_mod
    if api.available(classify_mod, 'disambiguate_matching',
                     ('rain_intervals', 'jump_intervals')):
        out.append(matching.large_space())
    if tier == 'quick':
        if abs_ok:
            out.append(inst(3, 3, False))
        out += [cs.fn_space(L) for L in range(4, 10) if fn_ok]
        out += [cs.fn_space(7, stretch=60)] if fn_ok else []
        out.append(cs.sequence_space(3))
        out.append(cs.sequence_space(3, dataset=3))
        for n in (5, 6, 7):
            out.append(cs.db_space(n, cs.COMBOS[n % 4], 0, binary=True))
    else:
        if abs_ok:
            out.append(inst(3, 3, True))
        out += [cs.fn_space(L) for L in range(4, 12) if fn_ok]
        out += [cs.fn_space(8, stretch=60)] if fn_ok else []
        out.append(cs.sequence_space(4))
        out.append(cs.sequence_space(4, dataset=3))
        for n in (5, 6, 7, 8, 9):
            out.append(cs.db_space(n, cs.COMBOS[n % 4], 0, binary=True))
    return out


def run_case(case):
    if case['kind'] == 'large':
        viol, info = matching.run_large(case)
        return cs.to_result(viol, info)
    if case['kind'] == 'abs':
        viol, info = matching.run_abs(case)
        return cs.to_result(viol, info)
    viol, info = cs.run_case_for(case, WANT)
    if case['kind'] == 'sequence':
        return cs.to_result(viol['C02'], info)
    info['nontrivial'] = bool(info.get('contention'))
    return cs.to_result(viol['C02'], info)
