"""C07 - results do not depend on the time origin."""

import math
import os
import sqlite3

import spowtd.classify as classify_mod

from mc.engine import Space, Result
from mc.lib import classify_spaces as cs
from mc.lib import events, records

ID = 'C07'
LEVEL = 'model_checking'
# fewer non-trivial cases than this share of all cases means that the
# exploration has become vacuous (reported as INTERNAL-ERROR, never as a pass)
MIN_NONTRIVIAL_FRACTION = 0.15
RULE = (
    'Differential oracle, no expected values: every base record (all '
    'ternary records rain in {0,=s,>s} x increment in {fall, exactly j*dt, '
    '>j*dt} of the stated length on time steps 3600/1800/1200/600 s; all '
    'event words (S D)^m with the full workflow to both master curves, on '
    'steps from one second to one day) is '
    'run at the base origin and again at each origin of the menu: shifts of '
    'm time steps for m in {1,2,3,5,7,1000,2^17,10^6,-4099}, the origins '
    '1975-01-01 and 2040-01-01 (beyond 2^31 s) and the same '
    'wall-clock text declared in Etc/GMT+5, Etc/GMT-3, Asia/Kolkata, '
    'Asia/Kathmandu.  All classification and master-curve tables, with the '
    'known shift subtracted from every epoch column, must be identical '
    '(integers and flags exactly, offsets/crossings to 1e-9 relative).  '
    'States = (record, origin) pairs, transitions = moves to another origin '
    'of the menu.  Non-trivial = the base run recorded at least one '
    'interval.')
ASSUMPTIONS = [
    'fixed-offset zones only (the statement says so); dates 1975-2040',
    'float columns (offsets, crossings, curve values) compared to 1e-9 '
    'relative to the largest magnitude in the column, integers exactly',
]
SHIFT_STEPS = [1, 2, 3, 5, 7, 1000, 2 ** 17, 10 ** 6, -4099]
ZONES = [('Etc/GMT+5', -5 * 3600), ('Etc/GMT-3', 3 * 3600),
         ('Asia/Kolkata', 19800), ('Asia/Kathmandu', 20700)]
EPOCH_COLS = {
    'grid_time': [0], 'grid_time_flags': [0], 'rainfall_intensity': [0, 1],
    'evapotranspiration': [0, 1], 'water_level': [0], 'storm': [0, 1],
    'zeta_interval': [0, 2], 'zeta_interval_storm': [0, 2],
    'rising_interval': [0], 'recession_interval': [0],
    'rising_interval_zeta': [0], 'recession_interval_zeta': [0],
}
TABLES = list(EPOCH_COLS) + ['thresholds', 'discrete_zeta', 'zeta_grid']
VIEWS = ['average_rising_depth', 'average_recession_time',
         'storm_total_rain_depth', 'rising_curve_line_segment']
VIEW_EPOCH_COLS = {'storm_total_rain_depth': [0],
                   'rising_curve_line_segment': [0]}
EVENT_CONFIGS = [('uniform', 2.0, 1200, 1.0), ('convex', 0.5, 600, 0.5),
                 ('concave', 2.0, 3600, 0.3), ('uniform', 0.5, 1800, 2.5),
                 # one-second and one-day steps
                 ('uniform', 2.0, 1, 1.0), ('convex', 0.5, 86400, 0.5)]
A0 = 16


def BOUND(tier):
    return {
        'quick': 'ternary records n=3 on 4 combos and n=4 on dt=1200, 600; event '
                 'words (S D)^2 on 3 configurations (steps 20 min, 10 min, 1 s); 15 origins each (incl. 1975 and 2040); CLI: '
                 'n=3',
        'thorough': 'ternary records n<=5 on 5 combos, n=6 on dt=1200; event '
                    'words (S D)^2 on 6 configurations (steps from 1 s to 1 d), (S D)^3 on one; 15 '
                    'origins each (incl. 1975 and 2040); CLI: n<=4',
    }[tier]


def decoy():
    from mc.lib import decoy as decoy_mod
    decoy_mod.classification().close()


def selftest():
    cs.selftest()


def tern_space(n, combo, cli=False, base_level=0.0):
    base = cs.db_space(n, combo, 0, cli=cli, base_level=base_level)

    def decode(i):
        case = base.decode(i)
        case['kind'] = 'tern-cli' if cli else 'tern'
        return case
    return Space('origins x ' + base.name, base.size, decode)


def event_space(pairs, config):
    size, decode_word = events.word_space_events(pairs)

    def decode(i):
        return {'kind': 'events', 'config': list(config),
                'word': decode_word(i)}
    return Space('origins x workflow/(S D)^%d/%s Sy=%g dt=%d step=%g'
                 % ((pairs,) + tuple(config)), size, decode)


def spaces(tier):
    out = []
    if tier == 'quick':
        out.append(tern_space(3, cs.COMBOS[2], cli=True))
        for combo in cs.COMBOS[:4]:
            out.append(tern_space(3, combo))
        for combo in cs.COMBOS[2:4]:
            out.append(tern_space(4, combo))
        out.append(tern_space(3, cs.COMBOS[2], base_level=-171.6))
        out.append(tern_space(3, cs.COMBOS[3], base_level=4097.75))
        for config in EVENT_CONFIGS[:2] + EVENT_CONFIGS[4:5]:
            out.append(event_space(2, config))
    else:
        for n in (3, 4):
            out.append(tern_space(n, cs.COMBOS[2], cli=True))
        for n in (3, 4, 5):
            for combo in cs.COMBOS:
                out.append(tern_space(n, combo))
        out.append(tern_space(6, cs.COMBOS[2]))
        for config in EVENT_CONFIGS:
            out.append(event_space(2, config))
        out.append(event_space(3, EVENT_CONFIGS[0]))
    return out


def normalised(connection, shift):
    cur = connection.cursor()
    out = {}
    have = {r[0] for r in cur.execute(
        "SELECT name FROM sqlite_master WHERE type IN ('table', 'view')")}
    for name in TABLES + VIEWS:
        if name not in have:
            continue
        cols = EPOCH_COLS.get(name, VIEW_EPOCH_COLS.get(name, []))
        try:
            rows = cur.execute('SELECT * FROM "%s"' % name).fetchall()
        except sqlite3.Error as exc:
            out[name] = 'unreadable: %r' % (exc,)
            continue
        norm = []
        for row in rows:
            row = list(row)
            for c in cols:
                if row[c] is not None:
                    row[c] = row[c] - shift
            norm.append(tuple(row))
        out[name] = sorted(norm, key=lambda r: tuple(
            (0, x) if isinstance(x, (int, float)) else (1, str(x))
            for x in r))
    cur.close()
    return out


def differences(base, other):
    """Names of tables that differ (ints exact, floats 1e-9 of column
    scale)"""
    bad = []
    for name in base:
        a, b = base[name], other.get(name)
        if isinstance(a, str) or isinstance(b, str) or b is None:
            if a != b:
                bad.append((name, 'unreadable/missing'))
            continue
        if len(a) != len(b):
            bad.append((name, '%d rows vs %d rows' % (len(a), len(b))))
            continue
        ncol = len(a[0]) if a else 0
        scale = [max([abs(r[c]) for r in a + b
                      if isinstance(r[c], float)] or [0.0])
                 for c in range(ncol)]
        done = False
        for ra, rb in zip(a, b):
            for c in range(ncol):
                x, y = ra[c], rb[c]
                if isinstance(x, float) or isinstance(y, float):
                    if x is None or y is None or not abs(x - y) <= 1e-9 * max(
                            scale[c], 1e-300) + 1e-12:
                        bad.append((name, 'row %r vs %r' % (ra, rb)))
                        done = True
                        break
                elif x != y:
                    bad.append((name, 'row %r vs %r' % (ra, rb)))
                    done = True
                    break
            if done:
                break
    return bad


FAR_ORIGINS = [('1975-01-01', 157766400), ('2040-01-01', 2208988800)]


def origins(dt):
    out = [('shift %d steps' % m, 'UTC', 0, m * dt) for m in SHIFT_STEPS]
    for label, epoch in FAR_ORIGINS:
        # decades away, the later one beyond 2^31 s (whole steps from T0)
        out.append(('origin ' + label, 'UTC', 0,
                    (epoch - records.T0_DEFAULT) // dt * dt))
    for zone, off in ZONES:
        # same wall-clock text read in a zone `off` east of UTC: every
        # instant moves by -off
        out.append(('zone ' + zone, zone, 0, -off))
    return out


def run_one(kind, spec, dt, t0, tzname, utc_offset):
    """Returns (connection or None, error text)"""
    if kind == 'tern-cli':
        _dt, s, j, rain, level, _ = cs.db_inputs(spec)
        db = os.path.join(cs.tmpdir(), 'c07.sqlite3')
        p, e, z = records.make_texts(rain, level, dt, t0,
                                     utc_offset_s=utc_offset)
        status, _, _, exc = cs.cli_load(db, p, e, z, tzname)
        if status != 0:
            return None, 'load: %r' % (exc,)
        status, _, _, exc = cs.run_main(
            ['classify', db, '-s', repr(s), '-j', repr(j)])
        connection = sqlite3.connect(db)
        return connection, (None if status == 0 else 'classify: %r' % (exc,))
    if kind == 'tern':
        _dt, s, j, rain, level, _ = cs.db_inputs(spec)
        try:
            connection = records.new_loaded(rain, level, dt, t0,
                                            tzname=tzname,
                                            utc_offset_s=utc_offset)
        except Exception as exc:  # pylint: disable=broad-except
            return None, 'load: %r' % (exc,)
        try:
            classify_mod.classify_intervals(connection, s, j)
        except Exception as exc:  # pylint: disable=broad-except
            connection.rollback()
            return connection, 'classify: %s' % cs.exc_site(exc)
        return connection, None
    ds = spec
    try:
        connection = records.new_loaded(
            ds['rain'], ds['level'], ds['dt'], t0, et=ds['et'],
            tzname=tzname, utc_offset_s=utc_offset)
    except Exception as exc:  # pylint: disable=broad-except
        return None, 'load: %r' % (exc,)
    errs = []
    import spowtd.zeta_grid as zg
    import spowtd.rise as rise_mod
    import spowtd.recession as recession_mod
    try:
        classify_mod.classify_intervals(connection, *ds['thresholds'])
        zg.populate_zeta_grid(connection, ds['grid_step'])
        connection.commit()
    except Exception as exc:  # pylint: disable=broad-except
        connection.rollback()
        return connection, 'classify: %s' % cs.exc_site(exc)
    for name, fn in (('rise', rise_mod.find_rise_offsets),
                     ('recession', recession_mod.find_recession_offsets)):
        try:
            fn(connection)
        except Exception as exc:  # pylint: disable=broad-except
            connection.rollback()
            errs.append('%s: %s' % (name, cs.exc_site(exc)))
    return connection, '; '.join(errs) or None


def run_case(case):
    kind = case['kind']
    if kind == 'events':
        shape, sy, dt, step = case['config']
        spec = events.build([tuple(e) for e in case['word']], shape, sy, dt,
                            A0)
        if spec is None:
            return Result(nontrivial=False, outcome='outside-family',
                          counters={'words_outside_the_truth_family': 1})
        spec['grid_step'] = step
    else:
        spec = case
        dt = case['combo'][0]
    t0 = records.T0_DEFAULT
    base_conn, base_err = run_one(kind, spec, dt, t0, 'UTC', 0)
    if base_conn is None:
        return Result(nontrivial=False, outcome='base-load-refused',
                      counters={'base_load_refused': 1})
    viol = []
    try:
        base = normalised(base_conn, t0)
    finally:
        base_conn.close()
    n_runs = 0
    for label, tzname, utc_offset, shift in origins(dt):
        t0_other = t0 + (shift if tzname == 'UTC' else 0)
        conn, err = run_one(kind, spec, dt, t0_other, tzname, utc_offset)
        n_runs += 1
        if conn is None:
            viol.append(('origin-changes-outcome',
                         '%s: %s, base run loaded' % (label, err)))
            continue
        try:
            other = normalised(conn, t0 + shift)
        finally:
            conn.close()
        if err != base_err:
            viol.append(('origin-changes-outcome',
                         '%s: errors %r, base origin: %r'
                         % (label, err, base_err)))
            continue
        bad = differences(base, other)
        if bad:
            names = sorted({b[0] for b in bad})
            viol.append((
                'origin-changes:' + '+'.join(names),
                '%s changes %s: %s' % (label, names, bad[0][1])))
    seen = set()
    viol = [v for v in viol if not (v[0] in seen or seen.add(v[0]))]
    nontrivial = bool(base.get('zeta_interval'))
    counters = {}
    if base.get('recession_interval') and base.get('rising_interval'):
        counters['records_with_both_master_curves'] = 1
    if base.get('zeta_interval_storm'):
        counters['records_with_pairs'] = 1
    return Result(viol=viol, nontrivial=nontrivial,
                  outcome=repr((base.get('zeta_interval'),
                                base.get('grid_time_flags'))),
                  states=1 + n_runs, transitions=n_runs, counters=counters,
                  obs={'origins': n_runs, 'base_error': base_err,
                       'intervals': len(base.get('zeta_interval') or [])})
