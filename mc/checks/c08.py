"""C08 - master curves do not depend on arbitrary processing choices."""

import copy
import itertools

import numpy as np

import spowtd.fit_offsets as fit_mod

from mc.engine import Space, Result, InternalError
from mc.lib import classify_spaces as cs
from mc.lib import crossings

ID = 'C08'
LEVEL = 'exploration'
RULE = (
    'Function level: every multiset of up to 4 of the 100 two- and '
    'three-point paths on a 5-position level lattice (non-monotone ones '
    'included); the level -> intervals mapping is composed as '
    'build_head_mapping composes it and passed to the real '
    'get_connected_components, result compared with an independent '
    'union-find (4.6 million overlap structures real series can produce).  '
    'Every multiset of up to 4 (thorough: 5) pieces from a menu of short '
    'series (recessions that begin with a residual rise, overlapping chains, nested pieces, pieces that touch '
    'only at a level, disjoint pieces, a long lone piece; recession-like '
    'multi-sample pieces and rise-like two-point segments) is passed to the '
    'real get_series_time_offsets in EVERY order and with per-piece axis '
    'shifts (none; each single piece shifted by +1000, -7.5 or 1.6e9; all '
    'pieces shifted differently); the main group\'s head mapping is also '
    'passed to find_offsets under EVERY relabelling of the series ids '
    '(which changes the internal zero).  Oracle: connected groups by an '
    'independent union-find over the exact levels each piece crosses; the '
    'returned pieces are exactly one whole group of >= 2 pieces (the '
    'strictly largest one when one group is largest both by levels and by '
    'pieces); relative offsets and the master curve relative to its top '
    'level are identical over all transformed runs (1e-9 of the time '
    'span).  Non-trivial = a multiset with a group of >= 2 pieces and at '
    'least one piece outside it or at least 3 pieces in it.')
ASSUMPTIONS = [
    'when the two size measures (levels, pieces) disagree or tie, which '
    'group is the main body is not defined by the statement: only "one '
    'whole group of >= 2 pieces" is required there',
    'if no two pieces share a level there is nothing to align: an error or '
    'a lone piece is accepted',
]
STEP = 1.0
# (levels, times): recession-like pieces fall, rise-like pieces rise
MENU_RECESSION = [
    ([10.0, 8.5, 7.25, 6.0], [0, 3600, 7200, 10800]),        # A 6..9
    ([8.0, 6.5, 4.75, 3.0], [0, 3600, 7200, 10800]),         # B 3..7
    ([7.5, 6.5], [0, 1800]),                                 # C 7 (nested)
    ([6.0, 4.5, 2.0], [0, 3600, 9000]),                      # D 2..5
    ([20.0, 18.5, 16.0], [0, 3600, 7200]),                   # E 16..19
    ([18.25, 17.0, 15.0], [0, 1200, 4800]),                  # F 15..18
    ([31.0, 28.0, 24.0, 22.5], [0, 3600, 7200, 10800]),      # G 23..30 lone
    ([5.5, 4.5], [0, 3600]),                                 # H 5
    # recessions that begin with a small residual rise (not monotone)
    ([6.75, 7.5, 5.5], [0, 1800, 9000]),                     # I 7,7,6
    ([4.25, 9.25, 8.75, 3.5], [0, 600, 4200, 15000]),        # J 5..9 up, 9..4
    # same initial level as A, different shapes (ties in the sort key)
    ([10.0, 9.25, 8.0], [0, 1800, 5400]),                    # K 8, 9
    ([10.0, 7.5], [0, 7200]),                                # L 8, 9
    # the very same levels as A on another time pattern
    ([10.0, 8.5, 7.25, 6.0], [0, 1800, 3000, 12000]),        # M 6..9
]
MENU_RISE = [
    ([2.0, 6.5], [0, 9.0]),        # 2..6
    ([5.5, 9.0], [0, 7.0]),        # 6..8  (9 excluded)
    ([9.0, 12.5], [0, 3.5]),       # 9..12 touches previous at 9 only
    ([3.25, 4.75], [0, 1.5]),      # 4 nested
    ([20.0, 24.5], [0, 10.0]),     # 20..24
    ([23.5, 26.0], [0, 2.0]),      # 24,25
    ([40.0, 52.0], [0, 30.0]),     # 40..51 long lone
    ([11.5, 13.0], [0, 0.5]),      # 12
    ([7.25, 10.5], [0, 4.0]),      # 8..10 bridges the second and third
    ([24.75, 41.0], [0, 20.0]),    # 25..40 bridges to the long piece
    ([2.0, 4.5], [0, 3.0]),        # same initial level as the first
    ([2.0, 9.5], [0, 11.0]),       # same initial level, longer
    ([2.0, 6.5], [0, 4.5]),        # the first piece's levels, half its depth
]
MENUS = {'recession': MENU_RECESSION, 'rise': MENU_RISE}
SHIFTS = [1000.0, -7.5, 1.6e9]


def decoy():
    from mc.lib import decoy as decoy_mod
    decoy_mod.functions()


def BOUND(tier):
    return ('all multisets of up to 4 of 100 lattice paths for the group '
            'finder; all multisets of 2..%d pieces from two menus of 13 pieces x all '
            'orders x 3k+2 shift vectors; all relabellings of the main group'
            % (4 if tier == 'quick' else 5))


def multiset_space(menu, size, n_menu, step=1.0, subset=None):
    combos = list(itertools.combinations_with_replacement(
        subset if subset is not None else range(n_menu), size))

    def decode(i):
        case = {'menu': menu, 'pieces': list(combos[i])}
        if step != 1.0:
            case['step'] = step
        return case
    return Space('get_series_time_offsets/%s menu (%d of its pieces)/%d '
                 'pieces%s%s' % (menu, n_menu if subset is None
                                 else len(subset), size,
                                 '' if step == 1.0
                                 else '/grid step %g' % step,
                                 '' if subset is None else
                                 '/pieces with equal initial levels'),
                 len(combos), decode)


LATTICE = [0.5, 1.5, 2.5, 3.5, 4.5]
_PIECES = []


def lattice_pieces():
    """Every 2- and 3-point path on the half-integer lattice (non-monotone
    ones included) with the ordered list of distinct levels it crosses,
    obtained once from the real regrid through build_head_mapping"""
    if _PIECES:
        return _PIECES
    paths = []
    for a in LATTICE:
        for b in LATTICE:
            if b == a:
                continue
            paths.append((a, b))
            for c in LATTICE:
                if c != b:
                    paths.append((a, b, c))
    for path in paths:
        t = np.arange(len(path), dtype='float64')
        mapping = fit_mod.build_head_mapping(
            [(t, np.array(path, dtype='float64'))], STEP)
        _PIECES.append((path, list(mapping)))
    return _PIECES


def components_space(k):
    """Every multiset of k lattice paths: the level -> intervals mapping is
    composed exactly as build_head_mapping composes it (series sorted by
    initial level, levels in order of first crossing), so every mapping fed
    to get_connected_components is one real series can produce"""
    n = len(lattice_pieces())
    combos = itertools.combinations_with_replacement(range(n), k)
    size = 1
    for i in range(k):
        size = size * (n + i) // (i + 1)

    def decode(i):
        # unrank the i-th multiset in lexicographic order
        out = []
        lo = 0
        rem = i
        for pos in range(k):
            left = k - pos - 1
            for v in range(lo, n):
                # number of multisets of size `left` from values >= v
                cnt = 1
                m = n - v
                for j in range(left):
                    cnt = cnt * (m + j) // (j + 1)
                if rem < cnt:
                    out.append(v)
                    lo = v
                    break
                rem -= cnt
        return {'kind': 'components', 'pieces': out}
    del combos
    return Space('get_connected_components/multisets of %d lattice paths'
                 % k, size, decode, decoy_every=50000)


def run_components(case):
    pieces = lattice_pieces()
    ids = case['pieces']
    viol = []
    nontrivial = False
    for order in (list(range(len(ids))), list(range(len(ids)))[::-1]):
        ranked = sorted(order, key=lambda i: pieces[ids[i]][0][0])
        mapping = {}
        for sid, i in enumerate(ranked):
            for head in pieces[ids[i]][1]:
                mapping.setdefault(head, set()).add(sid)
        if not mapping:
            continue
        try:
            got = fit_mod.get_connected_components(
                {h: set(v) for h, v in mapping.items()})
        except Exception as exc:  # pylint: disable=broad-except
            return Result(viol=[('crash:' + cs.exc_site(exc),
                                 repr(exc)[:200])],
                          nontrivial=True, outcome='exc')
        heads = list(mapping)
        parent = {h: h for h in heads}

        def find(a):
            while parent[a] != a:
                a = parent[a]
            return a
        for a in heads:
            for b in heads:
                if a < b and mapping[a] & mapping[b]:
                    parent[find(a)] = find(b)
        want = {}
        for h in heads:
            want.setdefault(find(h), set()).add(h)
        want = sorted(sorted(v) for v in want.values())
        if len(want) < len(heads) and len(want) > 1:
            nontrivial = True
        paths = [pieces[ids[i]][0] for i in ranked]
        if sorted(sorted(c) for c in got) != want:
            viol.append((
                'wrong-connected-groups',
                'series %r (sorted by initial level): levels -> series %r: '
                'groups of levels %r, expected %r'
                % (paths, {h: sorted(v) for h, v in mapping.items()},
                   [sorted(c) for c in got], want)))
        else:
            series_of = [set().union(*[mapping[h] for h in c]) for c in got]
            multi = [len(s_) > 1 for s_ in series_of]
            if any(multi) and not multi[0]:
                viol.append((
                    'lone-interval-ranked-first',
                    'series %r: first group %r holds a single interval '
                    'although a group of several exists'
                    % (paths, sorted(got[0]))))
        if viol:
            break
    return Result(viol=viol, nontrivial=nontrivial,
                  outcome=None,
                  counters={'executions_of_the_real_code': 2})


def spaces(tier):
    from mc.lib import api
    cc_ok = (api.available(fit_mod, 'get_connected_components',
                           ('head_mapping',))
             and api.available(fit_mod, 'build_head_mapping', ('series',)))
    gs_ok = api.available(fit_mod, 'get_series_time_offsets',
                          ('series_list', 'head_step'))
    out = [components_space(k) for k in (2, 3, 4) if cc_ok]
    if not gs_ok:
        return out
    for size in ((2, 3, 4) if tier == 'quick' else (2, 3, 4, 5)):
        for menu in ('recession', 'rise'):
            n_menu = 13 if (tier == 'thorough' or size < 4) else 8
            out.append(multiset_space(menu, size, n_menu))
    # four or five different pieces that begin at the same level (ties in
    # any ordering by initial level), with one that does not
    out.append(multiset_space('recession', 4, 13, subset=[0, 10, 11, 12, 1]))
    out.append(multiset_space('rise', 4, 13, subset=[0, 10, 11, 12, 1]))
    if tier == 'thorough':
        out.append(multiset_space('recession', 5, 13,
                                  subset=[0, 10, 11, 12, 1]))
    # the same pieces on other level grids, in the same process
    for step in (0.5, 2.0):
        for menu in ('recession', 'rise'):
            out.append(multiset_space(menu, 2 if tier == 'quick' else 3, 13,
                                      step=step))
    return out


def levels_of(piece, step=STEP):
    H, t = piece
    return set(crossings.mean_crossings([float(x) for x in t], H, step))


def groups_of(pieces, step=STEP):
    """Connected groups of piece positions sharing levels"""
    lv = [levels_of(p, step) for p in pieces]
    parent = list(range(len(pieces)))

    def find(a):
        while parent[a] != a:
            a = parent[a]
        return a
    for a in range(len(pieces)):
        for b in range(a + 1, len(pieces)):
            if lv[a] & lv[b]:
                parent[find(a)] = find(b)
    groups = {}
    for a in range(len(pieces)):
        groups.setdefault(find(a), []).append(a)
    out = []
    for members in groups.values():
        levels = set().union(*[lv[m] for m in members])
        out.append((sorted(members), levels))
    return out


def call(series, step=STEP):
    """Run the real code; returns ('ok', indices, offsets, mapping) or
    ('exc', site)"""
    arg = [(np.array(t, dtype='float64'), np.array(H, dtype='float64'))
           for (H, t) in series]
    try:
        idx, off, mapping = fit_mod.get_series_time_offsets(arg, step)
    except Exception as exc:  # pylint: disable=broad-except
        return ('exc', cs.exc_site(exc), repr(exc)[:120])
    return ('ok', [int(i) for i in idx], [float(o) for o in off],
            {int(h): [(int(i), float(v)) for i, v in seq]
             for h, seq in mapping.items()})


def summary(res, ids_of_position):
    try:
        return summary_(res, ids_of_position)
    except (KeyError, IndexError, ValueError, ZeroDivisionError) as exc:
        return (['malformed result: %r' % (exc,)], [], {})


def summary_(res, ids_of_position):
    """Order-free description of a result: relative offsets per piece id and
    master curve relative to its top level"""
    _, idx, off, mapping = res
    if len(set(idx)) != len(idx) or len(idx) != len(off):
        raise ValueError('indices %r offsets %r' % (idx, off))
    mean = sum(off) / len(off)
    rel = sorted((ids_of_position[i], o - mean) for i, o in zip(idx, off))
    offset_of = dict(zip(idx, off))
    curve = {}
    for h, seq in mapping.items():
        curve[h] = sum(offset_of[i] + v for i, v in seq) / len(seq)
    top = max(curve)
    curve = {h: v - curve[top] for h, v in curve.items()}
    members = sorted(ids_of_position[i] for i in idx)
    return members, rel, curve


def close(a, b, tol):
    return abs(a - b) <= tol


def same(sa, sb, tol):
    ma, ra, ca = sa
    mb, rb, cb = sb
    if ma != mb:
        return 'different pieces included: %r vs %r' % (ma, mb)
    for (ia, oa), (ib, ob) in zip(ra, rb):
        if ia != ib or not close(oa, ob, tol):
            return 'relative offsets differ: %r vs %r' % (ra, rb)
    if set(ca) != set(cb):
        return 'curve levels differ: %r vs %r' % (sorted(ca), sorted(cb))
    for h in ca:
        if not close(ca[h], cb[h], tol):
            return 'master curve differs at level %d: %r vs %r' % (
                h, ca[h], cb[h])
    return None


def run_case(case):
    if case.get('kind') == 'components':
        return run_components(case)
    menu = MENUS[case['menu']]
    ids = case['pieces']
    pieces = [menu[i] for i in ids]
    k = len(pieces)
    step = float(case.get('step') or STEP)
    groups = groups_of(pieces, step)
    multi = [g for g in groups if len(g[0]) >= 2]
    viol = []
    base = call(pieces, step)
    span = max(max(t) - min(t) for _, t in pieces)
    tol = 1e-9 * max(span, 1.0)
    nontrivial = False
    counters = {}
    if not multi:
        counters['multisets_with_nothing_to_align'] = 1
        if base[0] == 'ok' and len(base[1]) > 1:
            viol.append(('aligned-pieces-sharing-no-level',
                         'pieces %r share no level but %r were aligned'
                         % (ids, base[1])))
        return Result(viol=viol, nontrivial=False, outcome=base[0],
                      counters=counters, obs={'result': base[0]})
    if base[0] == 'exc':
        return Result(viol=[(
            'main-body-not-aligned:' + base[1],
            'pieces %r contain a group of overlapping pieces %r but the '
            'call failed: %s' % (ids, [g[0] for g in multi], base[2]))],
            nontrivial=True, outcome='exc')
    got_members = sorted(base[1])
    as_groups = [g[0] for g in multi]
    base_sum = summary(base, ids)
    if base_sum[0] and isinstance(base_sum[0][0], str):
        return Result(viol=[('malformed-result',
                             'pieces %r: %s; returned %r'
                             % (ids, base_sum[0][0], base[1:3]))],
                      nontrivial=True, outcome='malformed')
    if got_members not in as_groups:
        viol.append((
            'not-one-whole-group',
            'pieces %r: aligned positions %r, connected groups of >= 2 '
            'pieces are %r' % (ids, got_members, as_groups)))
    else:
        best_levels = max(len(g[1]) for g in groups)
        best_pieces = max(len(g[0]) for g in groups)
        top = [g for g in groups if len(g[1]) == best_levels
               and len(g[0]) == best_pieces]
        unique = (len(top) == 1
                  and sum(1 for g in groups
                          if len(g[1]) == best_levels) == 1
                  and sum(1 for g in groups
                          if len(g[0]) == best_pieces) == 1)
        if unique:
            counters['multisets_with_unique_largest_group'] = 1
            if got_members != top[0][0]:
                viol.append((
                    'not-the-largest-group',
                    'pieces %r: aligned %r but the largest group (levels '
                    'and pieces) is %r' % (ids, got_members, top[0][0])))
    outside = k - len(got_members)
    nontrivial = outside > 0 or len(got_members) >= 3
    if outside:
        counters['multisets_with_piece_left_out'] = 1
    # ---- transformed runs
    shift_vectors = [[0.0] * k]
    for i in range(k):
        for s in SHIFTS:
            v = [0.0] * k
            v[i] = s
            shift_vectors.append(v)
    shift_vectors.append([SHIFTS[i % 3] * (i + 1) for i in range(k)])
    n_runs = 0
    for perm in itertools.permutations(range(k)):
        for sv in shift_vectors:
            if perm == tuple(range(k)) and not any(sv):
                continue
            series = [(pieces[p][0], [x + sv[p] for x in pieces[p][1]])
                      for p in perm]
            res = call(series, step)
            n_runs += 1
            if res[0] == 'exc':
                viol.append(('transformed-run-fails',
                             'order %r shifts %r: %s' % (perm, sv, res[2])))
                break
            why = same(base_sum, summary(res, [ids[p] for p in perm]), tol)
            if why:
                kind = ('order' if not any(sv) else 'axis-shift')
                viol.append(('depends-on-' + kind,
                             'pieces %r, order %r, shifts %r: %s'
                             % (ids, perm, sv, why)))
                break
        if viol:
            break
    # ---- relabelling for find_offsets
    if not viol:
        members = got_members
        sub = [pieces[m] for m in members]
        arg = [(np.array(t, dtype='float64') - min(t),
                np.array(H, dtype='float64')) for (H, t) in sub]
        mapping = fit_mod.build_head_mapping(arg, step)
        ref = None
        for perm in itertools.permutations(range(len(sub))):
            relabelled = {h: [(perm[i] * 3 + 5, v) for i, v in seq]
                          for h, seq in mapping.items()}
            try:
                sids, offs = fit_mod.find_offsets(copy.deepcopy(relabelled))
            except Exception as exc:  # pylint: disable=broad-except
                viol.append(('relabelled-run-fails', repr(exc)[:120]))
                break
            n_runs += 1
            back = {}
            for sid, o in zip(sids, offs):
                back[perm.index((sid - 5) // 3)] = float(o)
            mean = sum(back.values()) / len(back)
            rel = [back[i] - mean for i in sorted(back)]
            if ref is None:
                ref = rel
            elif any(not abs(a - b) <= tol for a, b in zip(ref, rel)):
                viol.append(('depends-on-internal-zero',
                             'pieces %r relabelled %r: relative offsets %r '
                             'vs %r' % (ids, perm, rel, ref)))
                break
    counters['executions_of_the_real_code'] = 1 + n_runs
    seen = set()
    viol = [v for v in viol if not (v[0] in seen or seen.add(v[0]))]
    return Result(viol=viol, nontrivial=nontrivial,
                  outcome=repr((got_members, [round(o, 6) for _, o in
                                              base_sum[1]])),
                  states=1 + n_runs, transitions=n_runs, counters=counters,
                  obs={'aligned': got_members, 'groups': [g[0] for g in
                                                          groups],
                       'transformed_runs': n_runs})
