"""C19 - calibration files and simulation output describe the same problem."""

import gc
import itertools
import os
import sqlite3

import numpy as np
import yaml

import spowtd.simulate_recession as sim_rec_mod
import spowtd.simulate_rise as sim_rise_mod

from mc.engine import Space, Result, InternalError
from mc.lib import classify_spaces as cs
from mc.lib import pest, simdata

ID = 'C19'
LEVEL = 'exploration'
RULE = (
    'File sets: 5 datasets (different numbers of rise and recession levels) '
    'x 12 parameter files (thorough: all 49 same-type pairs of '
    'specific-yield and transmissivity sets; spline with 4..7 Sy knots and 2..5 K knots, knots '
    'with 7-10 significant digits, a spline whose overshoot makes the '
    'simulated recession non-monotone, two PEATCLSM sets) x {rise, curves}: the real `spowtd pestfiles ... '
    'tpl|ins|pst` and `spowtd simulate rise|recession [--observations]` are '
    'run and read back with a small PEST-format reader written from the PEST '
    'manual.  Oracle: NPAR/NOBS/NPARGP/NOBSGP equal the section line counts; '
    'parameter names = template placeholders (case-insensitive, as PEST '
    'compares them); observation k parses to exactly the measured value of '
    'the k-th row of the simulate table (same level, same order); the '
    'instruction file applied to the concatenated --observations output '
    'yields exactly the printed floats; the filled template loads to the '
    'original parameter dict.  Float-format alphabet: one representative of '
    'every (sign, number of significant digits 1..17, decimal exponent: 18 '
    'values from -300 to 300, thorough: every exponent from -307 to 308) class is pushed through the real simulate ... '
    '--observations writer (the computed array is substituted) and '
    'extracted with the generated instruction file.  Non-trivial = every '
    'file set; every format batch.')
ASSUMPTIONS = [
    'a parameter file uses one parameterisation for both functions (the '
    'statement says "both parameterisations"); files that mix a spline '
    'specific yield with a PEATCLSM transmissivity or vice versa are '
    'outside it (pestfiles chooses the control-file layout from the '
    'specific-yield type alone and fails or disagrees with its own '
    'template on such files)',
    'PEST semantics as in the PEST manual: primary marker @text@ = first '
    'following line containing text; l1 = advance one line; [name]c1:c2 = '
    'read columns c1..c2 (1-based, inclusive); names are case-insensitive',
    'the model output file for `curves` is the rise vector followed by the '
    'recession vector, as the generated instruction file expects',
]
PARAMS = [('inside', 'field'), ('straddle-top', 'two-knots'),
          ('all-below', 'five-knots'), ('seven-knots', 'five-knots'),
          ('published', 'published-high'), ('corner', 'other'),
          ('long-digits', 'long-digits'), ('overshoot', 'field'),
          ('twelve-knots', 'eleven-knots'), ('integer-knots', 'integer'),
          ('inside', 'tiny'), ('corner', 'tiny-ks')]
CURVATURE = 2.36
STALE = '# Recession curve simulation vector\n- 111.5\n# Rise curve simulation vector\n- 222.5\n'
MANT = '1234567890123456789'
EXPONENTS = [-300, -100, -10, -5, -4, -3, -2, -1, 0, 1, 2, 5, 15, 16, 17, 22,
             100, 300]


def decoy():
    from mc.lib import decoy as decoy_mod
    decoy_mod.functions()


def param_pairs(tier):
    """quick: 9 chosen pairs; thorough: every (Sy set, T set) pair of one
    parameterisation (spline with spline, PEATCLSM with PEATCLSM)"""
    if tier == 'quick':
        return list(PARAMS)
    pairs = [(a, b) for a in simdata.SPLINE_SY if a != 'descending'
             for b in simdata.SPLINE_T]
    pairs += [(a, b) for a in simdata.PEATCLSM_SY
              for b in simdata.PEATCLSM_T]
    return list(PARAMS) + [p for p in pairs if p not in PARAMS]


def exponents(tier):
    return EXPONENTS if tier == 'quick' else list(range(-307, 309))


def BOUND(tier):
    return ('%d datasets x %d parameter files x {rise, curves}; %d float '
            'format classes x {rise, recession} writers'
            % (len(simdata.WORDS), len(param_pairs(tier)),
               2 * 17 * len(exponents(tier))))


def alphabet(tier='quick'):
    out = []
    for sign in ('', '-'):
        for digits in range(1, 18):
            for e in exponents(tier):
                m = MANT[:digits]
                text = sign + m[0] + ('.' + m[1:] if digits > 1 else '') \
                    + 'e%d' % e
                out.append(float(text))
    return out


def spaces(tier):
    pairs = param_pairs(tier)
    files = list(itertools.product(range(len(simdata.WORDS)),
                                   range(len(pairs)), ('rise', 'curves')))

    def decode(i):
        which, p, sub = files[i]
        return {'kind': 'files', 'dataset': which, 'params': list(pairs[p]),
                'subtask': sub}
    crafted = list(itertools.product(range(len(CRAFTED)), (0, 4),
                                     ('rise', 'curves')))
    # the long table with one parameter file only
    crafted = [c for c in crafted if c[0] != len(CRAFTED) - 1 or c[1] == 0]

    def decode_crafted(i):
        k, p, sub = crafted[i]
        return {'kind': 'files', 'dataset': 0, 'crafted': k,
                'params': list(PARAMS[p]), 'subtask': sub}
    libseq = list(itertools.product(range(len(simdata.WORDS)), (0, 3, 4)))

    def decode_lib(i):
        which, p = libseq[i]
        return {'kind': 'library', 'dataset': which,
                'params': list(PARAMS[p])}
    values = alphabet(tier)
    batch = 4
    nb = -(-len(values) // batch)
    fm = list(itertools.product(('rise', 'recession'), range(nb)))

    def decode_fmt(i):
        writer, b = fm[i]
        return {'kind': 'format', 'writer': writer,
                'values': values[b * batch:(b + 1) * batch]}
    return [Space('pestfiles + simulate/datasets x parameter files x '
                  'subtask', len(files), decode),
            Space('pestfiles + simulate on crafted master-curve tables '
                  '(exact zeros, signed zero, tiny, long values, 1105 '
                  'levels)',
                  len(crafted), decode_crafted),
            Space('pestfiles functions on one connection, files generated '
                  'before and after the recession curve is assembled',
                  len(libseq), decode_lib),
            Space('float formats through the simulate writers', len(fm),
                  decode_fmt, '%d values in batches of %d'
                  % (len(values), batch))]


def run_to_text(argv_head, name):
    out = os.path.join(cs.tmpdir(), '%s-%d.txt' % (name, os.getpid()))
    # the output file already exists (an earlier model run wrote it): the
    # command must replace its content
    with open(out, 'w') as f:
        f.write(STALE)
    status, _, _, exc = cs.run_main(argv_head + ['-o', out])
    gc.collect()
    if status != 0:
        if os.path.exists(out):
            os.unlink(out)
        raise RuntimeError('%r failed: %r' % (argv_head[:3], exc))
    with open(out, newline='') as f:
        text = f.read()
    os.unlink(out)
    if STALE.strip() in text:
        raise RuntimeError('%r left the previous content of its output file '
                           'in place' % (argv_head[:3],))
    return text


def flat_parameters(pars, subtask):
    """{placeholder name: value} PEST would be calibrating"""
    sy = pars['specific_yield']
    tr = pars['transmissivity']
    out = {}
    if sy['type'] == 'spline':
        for i, v in enumerate(sy['sy_knots'], 1):
            out['sy_knot_%d' % i] = v
    else:
        for k in ('sd', 'theta_s', 'b', 'psi_s'):
            out[k] = sy[k]
    if subtask == 'curves':
        if tr['type'] == 'spline':
            for i, v in enumerate(tr['K_knots_km_d'], 1):
                out['K_knot_%d' % i] = v
            out['T_min'] = tr['minimum_transmissivity_m2_d']
        else:
            out['Ksmacz0'] = tr['Ksmacz0']
            out['alpha'] = tr['alpha']
    return out


def crafted_db(which, values):
    """A dataset whose master-curve views hold exactly the given values:
    one rising and one recession interval with zero offset and the values as
    crossings at consecutive levels"""
    db = simdata.materialise(which, curvature=CURVATURE, name='crafted')
    c = sqlite3.connect(db)
    have = [r[0] for r in c.execute(
        'SELECT zeta_number FROM discrete_zeta ORDER BY 1')]
    if len(have) < len(values) + 2:
        # a finer / taller grid than the dataset's: more levels below
        for n in range(have[0] - (len(values) + 2 - len(have)), have[0]):
            c.execute('INSERT INTO discrete_zeta (zeta_number) VALUES (?)',
                      (n,))
        have = [r[0] for r in c.execute(
            'SELECT zeta_number FROM discrete_zeta ORDER BY 1')]
    levels = have[2:2 + len(values)]
    (rise_start,) = c.execute(
        'SELECT interval_start_epoch FROM zeta_interval_storm LIMIT 1'
    ).fetchone()
    (rec_start,) = c.execute(
        "SELECT start_epoch FROM zeta_interval WHERE interval_type = "
        "'interstorm' LIMIT 1").fetchone()
    for table in ('rising_interval_zeta', 'rising_interval',
                  'recession_interval_zeta', 'recession_interval'):
        c.execute('DELETE FROM %s' % table)
    c.execute('INSERT INTO rising_interval (start_epoch, '
              'rain_depth_offset_mm) VALUES (?, 0.0)', (rise_start,))
    c.execute('INSERT INTO recession_interval (start_epoch, time_offset_s) '
              'VALUES (?, 0.0)', (rec_start,))
    for n, v in zip(levels, values):
        c.execute('INSERT INTO rising_interval_zeta VALUES (?, ?, ?)',
                  (rise_start, n, v))
        # the view divides by 86400: store a multiple so that the measured
        # time in days is exactly v
        c.execute('INSERT INTO recession_interval_zeta VALUES (?, ?, ?)',
                  (rec_start, n, v * 86400.0))
    c.commit()
    c.close()
    return db


CRAFTED = [
    [0.0, 1.5, -2.25, 3.0],
    [-1.0, -0.0, 0.5, 2.0, 4.0],
    [1e-300, 0.0, 0.0, 1.0],
    [0.1, 0.2, 0.30000000000000004, 123456789.12345679, -1e-7],
    [5.0, 0.0],
    # a master curve of a single level: one observation per curve
    [1.5625],
    # more than a thousand observations, negative ones among them
    # (observation names reach five characters)
    [(-1) ** k * (0.5 + 0.125 * k) for k in range(1105)],
]


def run_files(case):
    pars = simdata.parameters(*case['params'])
    sub = case['subtask']
    if case.get('crafted') is not None:
        db = crafted_db(case['dataset'], CRAFTED[case['crafted']])
    else:
        db = simdata.materialise(case['dataset'], curvature=CURVATURE)
    ypath = simdata.write_yaml(pars)
    rec_table = rec_vec = None
    try:
        files = {}
        for kind in ('tpl', 'ins', 'pst'):
            files[kind] = run_to_text(['pestfiles', sub, db, ypath, kind],
                                      kind)
        rise_table = yaml.safe_load(run_to_text(
            ['simulate', 'rise', db, ypath], 'rt'))
        rise_vec = run_to_text(['simulate', 'rise', db, ypath,
                                '--observations'], 'rv')
        if sub == 'curves':
            rec_table = yaml.safe_load(run_to_text(
                ['simulate', 'recession', db, ypath], 'ct'))
            rec_vec = run_to_text(['simulate', 'recession', db, ypath,
                                   '--observations'], 'cv')
        connection = sqlite3.connect(db)
        view_rise, view_rec = read_views(connection)
        connection.close()
    except (RuntimeError, pest.PestError, yaml.YAMLError) as exc:
        os.unlink(db)
        return Result(viol=[('command-failed', repr(exc)[:300])],
                      nontrivial=True, outcome='exc')
    os.unlink(db)
    return cross_check(case, pars, sub, files, rise_table, rise_vec,
                       rec_table, rec_vec, view_rise, view_rec)


def read_views(connection):
    view_rise = dict(connection.execute(
        'SELECT zeta_mm, mean_crossing_depth_mm FROM '
        'average_rising_depth'))
    view_rec = dict(connection.execute(
        'SELECT zeta_mm, CAST(elapsed_time_s AS double precision) / '
        '(3600 * 24) FROM average_recession_time'))
    return view_rise, view_rec


def run_library_sequence(case):
    """The same functions on ONE connection, with the files generated twice
    around the assembly of the recession curve"""
    import io
    import spowtd.pestfiles as pestfiles_mod
    import spowtd.recession as recession_mod
    pars = simdata.parameters(*case['params'])
    text = yaml.safe_dump(pars)
    connection = simdata.memory(case['dataset'], curvature=CURVATURE)
    for table in ('recession_interval_zeta', 'recession_interval'):
        connection.execute('DELETE FROM %s' % table)
    connection.commit()

    def generate(sub, kind):
        out = io.StringIO(newline='')
        fn = (pestfiles_mod.generate_rise_pestfiles if sub == 'rise'
              else pestfiles_mod.generate_curves_pestfiles)
        fn(connection, io.StringIO(text), kind, None, out)
        return out.getvalue()

    def simulate(which, observations):
        out = io.StringIO()
        if which == 'rise':
            sim_rise_mod.simulate_rise(connection, io.StringIO(text), out,
                                       observations)
        else:
            sim_rec_mod.dump_simulated_recession(
                connection, io.StringIO(text), out, observations)
        return out.getvalue()
    try:
        # first generation: rise curve only (results are discarded, the
        # point is that they were asked for)
        for kind in ('tpl', 'ins', 'pst'):
            generate('rise', kind)
        generate('curves', 'ins')
        recession_mod.find_recession_offsets(connection)
        files = {kind: generate('curves', kind)
                 for kind in ('tpl', 'ins', 'pst')}
        rise_table = yaml.safe_load(simulate('rise', False))
        rise_vec = simulate('rise', True)
        rec_table = yaml.safe_load(simulate('recession', False))
        rec_vec = simulate('recession', True)
        view_rise, view_rec = read_views(connection)
    except Exception as exc:  # pylint: disable=broad-except
        connection.close()
        return Result(viol=[('library-call-failed', repr(exc)[:300])],
                      nontrivial=True, outcome='exc')
    connection.close()
    return cross_check(case, pars, 'curves', files, rise_table, rise_vec,
                       rec_table, rec_vec, view_rise, view_rec)


def cross_check(case, pars, sub, files, rise_table, rise_vec, rec_table,
                rec_vec, view_rise, view_rec):
    viol = []
    try:
        pst = pest.parse_pst(files['pst'])
        delim, _, fields = pest.parse_tpl(files['tpl'])
        instr = pest.parse_ins(files['ins'])
    except pest.PestError as exc:
        return Result(viol=[('unreadable-pest-file', repr(exc)[:300])],
                      nontrivial=True, outcome='unreadable')
    # 1. declared counts
    for key, section in (('npar', 'parameters'), ('nobs', 'observations'),
                         ('npargp', 'parameter_groups'),
                         ('nobsgp', 'observation_groups')):
        if pst[key] != len(pst[section]):
            viol.append(('count-' + key,
                         '%s declared %d, %d lines in the section'
                         % (key.upper(), pst[key], len(pst[section]))))
    if pst['nprior'] != len(pst['sections'].get('prior information', [])):
        viol.append(('count-nprior', 'NPRIOR %d' % pst['nprior']))
    groups = {g.lower() for g in pst['parameter_groups']}
    for p in pst['parameters']:
        if len(p) < 7 or p[6].lower() not in groups:
            viol.append(('parameter-group-undeclared', repr(p)))
            break
    ogroups = {g.lower() for g in pst['observation_groups']}
    for o in pst['observations']:
        if len(o) != 4 or o[3].lower() not in ogroups:
            viol.append(('observation-group-undeclared', repr(o)))
            break
    # 2. names
    names_pst = sorted(p[0].lower() for p in pst['parameters'])
    names_tpl = sorted(f[3].lower() for f in fields)
    if names_pst != names_tpl:
        viol.append(('parameter-names-differ',
                     'control file %r, template placeholders %r'
                     % (names_pst, names_tpl)))
    # 3. observations vs simulate table
    expected = [(row[0], row[1]) for row in rise_table[1:]]
    curves = [view_rise] * len(expected)
    if sub == 'curves':
        expected += [(row[0], row[1]) for row in rec_table[1:]]
        curves += [view_rec] * (len(rec_table) - 1)
    obs = pst['observations']
    if len(obs) != len(expected):
        viol.append(('observation-count',
                     '%d observations, simulate tables have %d rows'
                     % (len(obs), len(expected))))
    else:
        for k, (o, (level, measured), view) in enumerate(
                zip(obs, expected, curves), 1):
            if o[0].lower() != 'e%d' % k:
                viol.append(('observation-name', '%r at position %d'
                             % (o[0], k)))
                break
            try:
                value = float(o[1])
            except ValueError:
                viol.append(('observation-unparseable', repr(o)))
                break
            near = [v for z, v in view.items() if abs(z - level) < 1e-9]
            if value != measured or near != [measured]:
                viol.append((
                    'observation-value',
                    'observation %s = %s but row %d of the simulate table '
                    'is level %r mm with measured value %r (master curve '
                    'at that level: %r)' % (o[0], o[1], k, level, measured,
                                            near)))
                break
    # 3b. instruction file on the simulation output
    output = rise_vec + (rec_vec if sub == 'curves' else '')
    printed = [float(t) for t in yaml.safe_load(rise_vec)]
    if sub == 'curves':
        printed += [float(t) for t in yaml.safe_load(rec_vec)]
    try:
        got = pest.apply_ins(instr, output)
    except pest.PestError as exc:
        viol.append(('instruction-file-does-not-fit-output', repr(exc)))
        got = []
    if got:
        if [g[0].lower() for g in got] != [o[0].lower() for o in obs]:
            viol.append(('instruction-names-differ',
                         'ins %r..., pst %r...' % ([g[0] for g in got][:3],
                                                   [o[0] for o in obs][:3])))
        elif len(got) != len(printed):
            viol.append(('instruction-count', '%d vs %d'
                         % (len(got), len(printed))))
        else:
            for (name, field, line), want in zip(got, printed):
                v = extraction_violation(name, field, line, want)
                if v:
                    viol.append(v)
                    break
    # 4. filled template
    try:
        filled = pest.fill_tpl(files['tpl'], flat_parameters(pars, sub))
        loaded = yaml.safe_load(filled)
        if loaded != pars:
            viol.append(('filled-template-differs',
                         'loads to %r, original %r' % (loaded, pars)))
    except (pest.PestError, yaml.YAMLError) as exc:
        viol.append(('template-cannot-be-filled', repr(exc)[:300]))
    seen = set()
    viol = [v for v in viol if not (v[0] in seen or seen.add(v[0]))]
    return Result(viol=viol, nontrivial=True,
                  outcome='%s/%r/%r/%r' % (sub, case['dataset'],
                                           case.get('crafted'),
                                           case['params']),
                  obs={'observations': len(obs), 'parameters':
                       len(pst['parameters'])})


def extraction_violation(name, field, line, want):
    text = line[2:]
    try:
        value = float(field)
    except ValueError:
        value = None
    if value == want:
        return None
    kind = ('text-longer-than-22-columns' if len(text.rstrip()) > 22
            else 'fits-in-22-columns')
    return ('extraction-loss:' + kind,
            'observation %s: the output line %r holds %r but columns of the '
            'instruction file extract %r (%d characters printed)'
            % (name, line, want, field, len(text.rstrip())))


def run_format(case):
    values = [float(v) for v in case['values']]
    which = 0
    db = simdata.materialise(which, curvature=CURVATURE)
    ypath = simdata.write_yaml(simdata.parameters('inside', 'field'))
    connection = sqlite3.connect(db)
    if case['writer'] == 'rise':
        (n,) = connection.execute(
            'SELECT count(*) FROM average_rising_depth').fetchone()
    else:
        (n,) = connection.execute(
            'SELECT count(*) FROM average_recession_time').fetchone()
    connection.close()
    if n < len(values):
        raise InternalError('dataset has only %d levels' % n)
    padded = values + [1.0] * (n - len(values))
    viol = []
    saved = (sim_rise_mod.compute_rise_curve,
             sim_rec_mod.compute_recession_curve)
    try:
        if case['writer'] == 'rise':
            sim_rise_mod.compute_rise_curve = \
                lambda *a, **k: np.array(padded)
            out = run_to_text(['simulate', 'rise', db, ypath,
                               '--observations'], 'fv')
            ins = run_to_text(['pestfiles', 'rise', db, ypath, 'ins'], 'fi')
            printed = padded
        else:
            # the writer reverses the computed array
            sim_rec_mod.compute_recession_curve = \
                lambda *a, **k: np.array(padded[::-1])
            out = run_to_text(['simulate', 'recession', db, ypath,
                               '--observations'], 'fv')
            ins_all = run_to_text(['pestfiles', 'curves', db, ypath, 'ins'],
                                  'fi')
            # keep only the recession part of the instruction set
            lines = pest.split_lines(ins_all)
            k = [i for i, l in enumerate(lines) if 'Recession' in l][0]
            ins = '\n'.join(lines[:1] + lines[k:])
            printed = padded
    except RuntimeError as exc:
        return Result(viol=[('command-failed', repr(exc)[:300])],
                      nontrivial=True, outcome='exc')
    finally:
        (sim_rise_mod.compute_rise_curve,
         sim_rec_mod.compute_recession_curve) = saved
        os.unlink(db)
    loaded = yaml.safe_load(out)
    if [float(x) for x in loaded] != printed:
        viol.append(('vector-not-round-trip',
                     'printed %r, yaml reads %r' % (printed[:3],
                                                    loaded[:3])))
    try:
        got = pest.apply_ins(pest.parse_ins(ins), out)
    except pest.PestError as exc:
        return Result(viol=[('instruction-file-does-not-fit-output',
                             repr(exc))], nontrivial=True, outcome='exc')
    n_long = 0
    for (name, field, line), want in zip(got, printed):
        if len(line[2:].rstrip()) > 22:
            n_long += 1
        v = extraction_violation(name, field, line, want)
        if v:
            viol.append(v)
    seen = set()
    viol = [v for v in viol if not (v[0] in seen or seen.add(v[0]))]
    return Result(viol=viol, nontrivial=True,
                  outcome=repr([len(repr(v)) for v in values]),
                  counters={'values_printed_wider_than_22_columns': n_long,
                            'values_pushed_through_writer': len(values)},
                  obs={'first_line': pest.split_lines(out)[1]})


def run_case(case):
    if case['kind'] == 'files':
        return run_files(case)
    if case['kind'] == 'library':
        return run_library_sequence(case)
    return run_format(case)
