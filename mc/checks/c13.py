"""C13 - every master-curve row traces back to its interval and data."""

import sqlite3
from fractions import Fraction

from mc.engine import Space, Result
from mc.lib import classify_spaces as cs
from mc.lib import crossings, events, records

ID = 'C13'
LEVEL = 'model_checking'
# fewer non-trivial cases than this share of all cases means that the
# exploration has become vacuous (reported as INTERNAL-ERROR, never as a pass)
MIN_NONTRIVIAL_FRACTION = 0.15
RULE = (
    'Event-word datasets (truth-consistent, and perturbed: irregular falls, '
    'a pause inside a storm so that two rises share one storm, a missing '
    'sample splitting the record into two stretches, a residual rise at '
    'the start of every dry spell) x grid steps {1, 0.5, '
    '0.3, 2.5} (1 and 0.5 make min/step and max/step integers) are run '
    'through the real load, classify, set-zeta-grid, rise, recession.  '
    'Oracle from tables only: every rising_interval is a paired rise and '
    'every recession_interval an interstorm interval; every '
    '*_interval_zeta value equals the exact mean crossing (C12 reference) '
    'of THAT interval\'s samples - a rise being the segment (0, initial '
    'level) -> (reference rain depth of its own storm, final level); every '
    'level used is in discrete_zeta and discrete_zeta covers every n with '
    'min <= n step < max of the stored water levels; the view '
    'rising_curve_line_segment has exactly one segment per interval of the '
    'rise curve, carrying that interval\'s offset, its own storm\'s depth and '
    'the levels at the two ends of the rise.  The same oracle is '
    'evaluated as a state invariant after EVERY sequence of up to 4 (5) '
    'workflow steps (classify, two grid steps, rise, rise -r, recession; '
    'repeats and failing steps included) from one loaded dataset.  Words are paths of '
    'the event tree (states = events, transitions = workflow steps).  '
    'Non-trivial = both curves assembled and every row verified.')
ASSUMPTIONS = [
    'crossing values are positions relative to the start of the interval '
    '(time since its first sample; rain depth since the start of its '
    'storm); a table that stored absolute positions consistently would '
    'also be accepted',
    'ambiguity band of C12 at samples indistinguishable from a level',
    'rain depth and pairing are taken from the reference classification of '
    'the loaded tables (C02/C03 check them)',
]
SEQ_STEPS = ['classify-B', 'grid-0.5', 'grid-1', 'grid-25', 'recession',
             'rise', 'rise-ref']
COARSE = ('uniform', 2.0, 3600, 4.0)
# the whole record moved so that its maximum is the decimal 12.3 on a 0.3 mm
# grid (12.3 / 0.3 = 41.00000000000001 in binary floating point)
DECIMAL_MAX = ('uniform', 2.0, 3600, 0.3)
CONFIGS = [
    ('uniform', 2.0, 3600, 1.0), ('uniform', 0.5, 1800, 0.5),
    ('convex', 2.0, 1200, 0.3), ('concave', 0.5, 3600, 2.5),
    ('convex', 0.5, 600, 1.0), ('uniform', 2.0, 1200, 0.3),
]
PERTURB = ['none', 'irregular-falls', 'pause-in-storm', 'gap',
           'residual-rise', 'gap-early']
A0 = 16


def decoy():
    from mc.lib import decoy as decoy_mod
    decoy_mod.workflow()
    decoy_mod.functions()


def BOUND(tier):
    return {
        'quick': 'words (S D)^2 x 6 perturbations on 6 configurations, and on two more with all levels moved by +-1e5 mm; '
                 '(S D)^3 on a coarse grid; all step sequences up to length '
                 '4 over 6 workflow steps',
        'thorough': 'words (S D)^m, m<=3, x 6 perturbations on 6 '
                    'configurations, (S D)^2 with all levels moved by +-1e5 mm; (S D)^3 on a coarse grid; all step '
                    'sequences up to length 5',
    }[tier]


def word_space(pairs, config, note=''):
    size, decode_word = events.word_space_events(pairs)

    def decode(i):
        return {'config': list(config), 'perturb': PERTURB[i % len(PERTURB)],
                'word': decode_word(i // len(PERTURB))}
    return Space('workflow/(S D)^%d x perturbations/%s Sy=%g dt=%d step=%g%s'
                 % ((pairs,) + tuple(config) + (note,)), size * len(PERTURB),
                 decode)


def coarse_space(pairs):
    """Truth-consistent words on a grid coarser than most rises, so that
    some paired rises cross no level at all while later ones do"""
    size, decode_word = events.word_space_events(pairs)

    def decode(i):
        return {'config': list(COARSE), 'perturb': 'none',
                'word': decode_word(i)}
    return Space('workflow/(S D)^%d/coarse grid %s Sy=%g dt=%d step=%g'
                 % ((pairs,) + COARSE), size, decode)


def decimal_max_space(pairs):
    size, decode_word = events.word_space_events(pairs)

    def decode(i):
        return {'config': list(DECIMAL_MAX), 'perturb': 'none',
                'word': decode_word(i), 'record_maximum': 12.3}
    return Space('workflow/(S D)^%d/record maximum exactly 12.3 mm on a 0.3 '
                 'mm grid' % pairs, size, decode)


def far_space(pairs, config, offset):
    """The same records a hundred metres above / below the surface (level
    numbers of 1e5 and, on the 0.3 mm grid, 3e5)"""
    size, decode_word = events.word_space_events(pairs)

    def decode(i):
        return {'config': list(config), 'perturb': 'none',
                'word': decode_word(i), 'level_offset': offset}
    return Space('workflow/(S D)^%d/levels moved by %g mm/%s Sy=%g dt=%d '
                 'step=%g' % ((pairs, offset) + tuple(config)), size, decode)


def sequence_space(depth):
    """Every sequence of up to `depth` workflow steps (repeats allowed, steps
    that fail are simply failed attempts) from the C20 dataset: the
    traceability oracle is an invariant of every reachable database state"""
    n = len(SEQ_STEPS)
    sizes = [n ** k for k in range(1, depth + 1)]

    def decode(i):
        k = 1
        for size in sizes:
            if i < size:
                break
            i -= size
            k += 1
        seq = []
        for _ in range(k):
            seq.append(SEQ_STEPS[i % n])
            i //= n
        return {'kind': 'sequence', 'steps': ['classify-A'] + seq[::-1]}
    return Space('classify, then every sequence of up to %d steps over %r'
                 % (depth, SEQ_STEPS), sum(sizes), decode)


def spaces(tier):
    out = []
    for config in CONFIGS:
        out.append(word_space(2, config))
    out.append(coarse_space(3))
    out.append(decimal_max_space(2 if tier == 'quick' else 3))
    # the grid step handed over as a Python integer
    out.append(word_space(2, ('uniform', 2.0, 3600, 1),
                          ' (an integer)'))
    out.append(word_space(2, ('concave', 0.5, 1800, 2), ' (an integer)'))
    out.append(far_space(2, CONFIGS[0], 100000.0))
    out.append(far_space(2, CONFIGS[5], -100000.0))
    out.append(sequence_space(4 if tier == 'quick' else 5))
    if tier == 'thorough':
        for config in CONFIGS:
            out.append(word_space(3, config))
    return out


_SEQ_MEMO = {}


def state_after(steps, dataset=0):
    """Bytes of the database after running `steps` (failed ones included)
    from a loaded C20 dataset; memoised per prefix"""
    from mc.checks import c20
    steps = tuple(steps)
    key = (dataset,) + steps
    if key in _SEQ_MEMO:
        return _SEQ_MEMO[key]
    if not steps:
        blob = c20.initial_state(dataset)[1]
    else:
        blob = state_after(steps[:-1], dataset)
        path = c20.materialise(blob)
        try:
            cs.run_main(c20.argv_of(steps[-1], path))
            with open(path, 'rb') as f:
                blob = f.read()
        finally:
            c20.cleanup(path)
    if len(_SEQ_MEMO) > 4000:
        _SEQ_MEMO.clear()
    _SEQ_MEMO[key] = blob
    return blob


def run_sequence(case):
    import sqlite3
    blob = state_after(case['steps'])
    connection = sqlite3.connect(':memory:')
    connection.deserialize(blob)
    try:
        row = connection.execute(
            'SELECT storm_rain_threshold_mm_h, rising_jump_threshold_mm_h '
            'FROM thresholds').fetchone()
        grid = connection.execute('SELECT count(*) FROM zeta_grid'
                                  ).fetchone()[0]
        if row is None or not grid:
            return Result(nontrivial=False, outcome='no-curves-possible')
        viol, info = check_tables(connection, row[0], row[1])
    finally:
        connection.close()
    viol = [(sig, 'after the steps %r: %s' % (case['steps'], msg))
            for sig, msg in viol]
    has = info['rise_rows'] > 0 or info['recession_rows'] > 0
    return Result(viol=viol, nontrivial=has,
                  outcome=repr(sorted(info.items())),
                  states=len(case['steps']) + 1,
                  transitions=len(case['steps']),
                  counters={'sequences_ending_in_a_state_with_curves':
                            int(has)}, obs=info)


def perturb(ds, how):
    level = list(ds['level'])
    rain = list(ds['rain'])
    n = len(rain)
    if how == 'irregular-falls':
        for (first, _a, d) in ds['dries']:
            for i in range(1, d):
                k = first + i
                if k < n:
                    level[k] += 0.25 if i % 2 else -0.125
    elif how == 'pause-in-storm':
        for (first, k, _z0, _z1) in ds['storms']:
            if k >= 3:
                # samples first..first+k: flatten the middle increment
                mid = first + 1
                level[mid + 1] = level[mid] if mid + 1 < n else level[mid]
    elif how == 'residual-rise':
        # the water table keeps rising a little at the start of each dry
        # spell (below the jump threshold): the interstorm interval's first
        # sample is not its highest, as in much of the field data
        for (first, _a, d) in ds['dries']:
            if d >= 2 and first + 1 < n:
                level[first + 1] = level[first] + 0.15625
    elif how in ('gap', 'gap-early'):
        if ds['dries']:
            # the hole is in the last dry spell, or in the first one so that
            # classified intervals follow it
            first, _a, d = ds['dries'][-1 if how == 'gap' else 0]
            k = first + max(1, d // 2)
            if 0 < k < n - 1:
                level[k] = None
    out = dict(ds)
    out['level'] = level
    out['rain'] = rain
    return out


def check_tables(connection, s, j):
    viol = []
    info = {}
    dt, stretches = records.read_loaded(connection)
    ref = records.RefClassification(dt, stretches, s, j)
    got = records.read_classification(connection)
    t = events.curve_tables(connection)
    step = t['grid_step']
    wl = {}
    for st in stretches:
        for e, z in zip(st.epochs, st.z):
            wl[e] = float(z)
    rises = dict(got['rise'])
    inter = dict(got['interstorm'])
    pair_of_rise = {r: s_ for s_, r in got['pairs']}
    grid = set(t['discrete_zeta'])
    # ---- grid covers the observed range
    zs = [Fraction(v) for v in wl.values()]
    lo, hi = min(zs), max(zs)
    fstep = Fraction(step)
    n = crossings.exact_ceil(lo / fstep)
    missing = []
    while n * fstep < hi:
        # band: a level indistinguishable from the maximum is exempt
        if n not in grid and float(n * fstep) != float(hi):
            missing.append(n)
        n += 1
    if missing:
        viol.append(('grid-does-not-cover-range',
                     'levels %r (x %r mm) lie within [%r, %r) but are not '
                     'in discrete_zeta' % (missing[:5], step, float(lo),
                                           float(hi))))
    # ---- recession rows
    rows = {}
    for start, n, v in t['recession_interval_zeta']:
        rows.setdefault(start, {})[n] = v
    for start, _off in t['recession_interval']:
        if start not in inter:
            viol.append(('recession-interval-not-interstorm',
                         'recession_interval %d is not an interstorm '
                         'interval' % start))
            continue
        ts = list(range(start, inter[start] + 1, dt))
        if any(e not in wl for e in ts):
            viol.append(('recession-interval-spans-gap', repr(start)))
            continue
        x = [float(e - start) for e in ts]
        y = [wl[e] for e in ts]
        why = match_rows(rows.get(start, {}), x, y, step, float(start))
        if why:
            viol.append(('recession-crossing:' + why[0],
                         'interval %d (levels %r): %s' % (start, y, why[1])))
    for start in rows:
        if start not in dict(t['recession_interval']):
            viol.append(('recession-zeta-row-without-interval', repr(start)))
    for start, _off in t['recession_interval']:
        if start not in rows:
            viol.append(('interval-without-crossings',
                         'recession_interval %d has an offset but no '
                         'crossing at any level: it cannot belong to the '
                         'master curve' % start))
    # ---- rise rows
    rows = {}
    for start, n, v in t['rising_interval_zeta']:
        rows.setdefault(start, {})[n] = v
    for start, _off in t['rising_interval']:
        if start not in rises or start not in pair_of_rise:
            viol.append(('rising-interval-not-a-paired-rise',
                         'rising_interval %d is not a paired rise' % start))
            continue
        storm = pair_of_rise[start]
        if storm not in ref.storms:
            continue
        depth = float(ref.storms[storm][2])
        x = [0.0, depth]
        y = [wl[start], wl[rises[start]]]
        why = match_rows(rows.get(start, {}), x, y, step, None)
        if why:
            viol.append(('rise-crossing:' + why[0],
                         'rise %d paired with storm %d (depth %r, levels '
                         '%r): %s' % (start, storm, depth, y, why[1])))
    for start, _off in t['rising_interval']:
        if start not in rows:
            viol.append(('interval-without-crossings',
                         'rising_interval %d has an offset but no crossing '
                         'at any level: it cannot belong to the master '
                         'curve' % start))
    # ---- the view that draws the rise curve: one straight segment per
    # interval of the curve, from its offset at the rise's initial level to
    # offset + storm depth at its final level
    try:
        segs = connection.execute(
            'SELECT interval_start_epoch, rain_depth_offset_mm, '
            'rain_total_depth_mm, initial_zeta_mm, final_zeta_mm FROM '
            'rising_curve_line_segment').fetchall()
    except sqlite3.Error as exc:
        segs = None
        viol.append(('line-segment-view-unreadable', repr(exc)[:200]))
    if segs is not None:
        offsets = dict(t['rising_interval'])
        by_start = {}
        for row in segs:
            by_start.setdefault(row[0], []).append(row)
        if set(by_start) != set(offsets) or any(
                len(v) != 1 for v in by_start.values()):
            viol.append((
                'line-segments-are-not-the-intervals-of-the-curve',
                'rising_curve_line_segment has segments for %r, the rise '
                'curve consists of the intervals %r'
                % (sorted((k, len(v)) for k, v in by_start.items())[:6],
                   sorted(offsets)[:6])))
        else:
            for start, (row,) in sorted(by_start.items()):
                if start not in rises or start not in pair_of_rise or \
                        pair_of_rise[start] not in ref.storms:
                    continue
                depth = float(ref.storms[pair_of_rise[start]][2])
                want = (offsets[start], depth, wl[start], wl[rises[start]])
                if any(not abs(a - b) <= 1e-9 * max(abs(b), 1.0)
                       for a, b in zip(row[1:], want)):
                    viol.append((
                        'line-segment-is-not-the-rise',
                        'segment of rise %d: (offset, depth, initial, '
                        'final) = %r, the rise has %r' % (start, row[1:],
                                                          want)))
                    break
    for table in ('rising_interval_zeta', 'recession_interval_zeta'):
        used = {n for _, n, _ in t[table]}
        if used - grid:
            viol.append(('level-not-in-grid',
                         '%s uses levels %r not in discrete_zeta'
                         % (table, sorted(used - grid)[:5])))
    info['rise_rows'] = len(t['rising_interval_zeta'])
    info['recession_rows'] = len(t['recession_interval_zeta'])
    info['several_rises_one_storm'] = int(any(
        sum(1 for (s2, _r) in ref.candidates if s2 == s_) > 1
        for (s_, _) in ref.candidates))
    seen = set()
    return [v for v in viol if not (v[0] in seen or seen.add(v[0]))], info


def match_rows(rows, x, y, step, absolute_base):
    """rows {level: value} against the reference mean crossings"""
    first = None
    for want in crossings.mean_crossing_options(x, y, step):
        for base in ((0.0,) if absolute_base is None
                     else (0.0, absolute_base)):
            why = None
            extra = sorted(set(rows) - set(want))
            if extra:
                why = ('level-not-crossed',
                       'rows at levels %r which this interval does not '
                       'cross (it crosses %r)' % (extra[:4], sorted(want)))
            else:
                for n, v in rows.items():
                    mean, tol = want[n]
                    if not abs(v - base - float(mean)) <= max(
                            tol, 1e-9 * max(abs(float(mean)), 1.0)):
                        why = ('value',
                               'level %d: stored %r, mean crossing of the '
                               'interval\'s own samples is %r'
                               % (n, v, float(mean)))
                        break
            if why is None:
                return None
            if first is None:
                first = why
    return first


def run_case(case):
    if case.get('kind') == 'sequence':
        return run_sequence(case)
    shape, sy, dt, step = case['config']
    word = [tuple(ev) for ev in case['word']]
    if case['perturb'] == 'gap-early':
        # a closing storm, so that the record goes on after the last dry
        # spell
        word = word + [('S', 1, 2)]
    ds = events.build(word, shape, sy, dt, A0)
    if ds is None:
        return Result(nontrivial=False, outcome='outside-family',
                      counters={'words_outside_the_truth_family': 1})
    ds = perturb(ds, case['perturb'])
    if case.get('record_maximum') is not None:
        top = max(z for z in ds['level'] if z is not None)
        shift = case['record_maximum'] - top
        ds['level'] = [None if z is None else z + shift
                       for z in ds['level']]
        if max(z for z in ds['level'] if z is not None) != case[
                'record_maximum']:
            # rounding moved the maximum: not a member
            return Result(nontrivial=False, outcome='maximum-not-exact')
    if case.get('level_offset'):
        ds['level'] = [None if z is None else z + case['level_offset']
                       for z in ds['level']]
    try:
        connection, errors = events.workflow_db(ds, step)
    except Exception as exc:  # pylint: disable=broad-except
        # totality of load/classify is C01/C10; nothing to trace here
        return Result(nontrivial=False, outcome='no-classification',
                      counters={'workflow_failed_before_curves:'
                                + cs.exc_site(exc): 1},
                      obs={'error': repr(exc)[:200]})
    try:
        s, j = ds['thresholds']
        viol, info = check_tables(connection, s, j)
    finally:
        connection.close()
    counters = {}
    for name in errors:
        counters['%s_not_assembled' % name] = 1
    if info.get('several_rises_one_storm'):
        counters['datasets_with_several_rises_for_one_storm'] = 1
    both = info['rise_rows'] > 0 and info['recession_rows'] > 0
    return Result(viol=viol, nontrivial=both,
                  outcome=repr(sorted(info.items())),
                  states=len(word) + 1, transitions=5, counters=counters,
                  obs=info)
