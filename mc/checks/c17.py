"""C17 - the simulated rise curve is the integral of specific yield."""

import io
import itertools
import os
import sqlite3

import numpy as np
import yaml

import spowtd.simulate_rise as sim_mod
import spowtd.specific_yield as sy_mod

from mc.engine import Space, Result
from mc.lib import classify_spaces as cs
from mc.lib import hydraulics, simdata

ID = 'C17'
LEVEL = 'exploration'
RULE = (
    'Function level: every combination of 12 specific-yield sets (10 spline '
    'knot sets, one of them refused as descending, 2 PEATCLSM sets) x 9 '
    'level grids (inside the knot range, 1e5 mm above and below it, '
    'straddling either end, entirely below, entirely above, wide, single '
    'cell) x {grid, grid with every cell halved, grid with every cell cut in '
    'three} x 3 requested means (whole-number grids also as int64 and '
    'float32 arrays), and every set x every sub-grid (>= 1 '
    'level) of a 10-level (thorough: 13-level) menu reaching below, into '
    'and above every knot range, through the real compute_rise_curve.  '
    'Oracle: W[j] - W[i] = Gauss-Legendre integral of the callable itself '
    'for all i < j; equal values at shared levels after refinement; '
    'non-decreasing when Sy >= 0; mean(W) = requested.  Command level: 3 '
    'datasets with an assembled rise curve x 12 parameter files x '
    '{table, --observations} through main([simulate, rise, ...]); oracle: '
    'rows = (levels of average_rising_depth in mm ascending, its measured '
    'values, the reference curve centred on their mean); the vector form '
    'holds the same numbers in the same order.  Non-trivial = a grid with '
    'at least 3 levels.')
ASSUMPTIONS = [
    'quadrature oracle exact for the piecewise-cubic / piecewise-linear '
    'callables (two-point Gauss-Legendre per piece); tolerance 1e-9 x '
    '(range of the curve + 1)',
]
SY_SETS = list(simdata.SPLINE_SY) + list(simdata.PEATCLSM_SY)
GRIDS = {
    'inside': [16.0, 17.0, 18.5, 19.0, 21.0],
    'straddle': [2.0, 9.5, 18.0, 20.0, 22.5, 31.0, 70.0],
    'below': [-400.0, -350.0, -320.0, -300.0],
    'above': [1100.0, 1200.0, 1500.0],
    'wide': [-1200.0, -100.0, 0.0, 15.0, 100.0, 1300.0],
    'single-cell': [18.0, 23.5],
    'fine': [18.0 + 0.25 * i for i in range(24)],
    # 1 mm and 0.25 mm cells a hundred metres from the surface: a cell is
    # 1e-5 .. 2.5e-6 of its level
    'far-above': [100000.0 + i for i in range(6)],
    'far-below': [-100003.0 + 0.25 * i for i in range(9)],
}
MEANS = [0.0, 37.5, -1234.5]
REFINE = [1, 2, 3]
# every sub-grid (>= 2 levels) of a level menu that reaches below, into and
# above every knot range, some levels being knots of some sets
MENU = {
    'quick': [-400.0, -55.0, 2.0, 8.5, 18.0, 20.75, 24.0, 45.0, 95.0,
              1200.0],
    'thorough': [-400.0, -55.0, 0.0, 2.0, 8.5, 12.0, 18.0, 20.75, 24.0,
                 45.0, 60.0, 95.0, 1200.0],
}


def decoy():
    from mc.lib import decoy as decoy_mod
    decoy_mod.functions()


def BOUND(tier):
    return ('%d Sy sets x %d grids x 3 refinements x 3 means and x every '
            'sub-grid of a %d-level menu (%d grids) at function level; %d '
            'datasets x %d parameter files x 2 output forms at command level'
            % (len(SY_SETS), len(GRIDS), len(MENU[tier]),
               2 ** len(MENU[tier]) - 1,
               len(simdata.WORDS), len(SY_SETS)))


def spaces(tier):
    fn = list(itertools.product(SY_SETS, GRIDS, REFINE, MEANS))
    # the same levels handed over as an integer array / a float32 array
    # (grids whose levels are whole numbers: what a data file with an
    # integer-typed level column yields)
    fn += [(sy, grid, 1, 37.5, dtype) for sy in SY_SETS
           for grid in GRIDS if all(float(z).is_integer()
                                    for z in GRIDS[grid])
           for dtype in ('int64', 'float32')]

    def decode(i):
        sy, grid, r, mean = fn[i][:4]
        case = {'kind': 'fn', 'sy': sy, 'grid': grid, 'refine': r,
                'mean': mean}
        if len(fn[i]) > 4:
            case['dtype'] = fn[i][4]
        return case
    cli = list(itertools.product(range(len(simdata.WORDS)), SY_SETS,
                                 (False, True)))

    def decode_cli(i):
        which, sy, obs = cli[i]
        return {'kind': 'cli', 'dataset': which, 'sy': sy,
                'observations': obs}
    menu = MENU[tier]
    masks = [m for m in range(1 << len(menu)) if m]   # one level and more

    def decode_sub(i):
        sy = SY_SETS[i % len(SY_SETS)]
        m = masks[i // len(SY_SETS)]
        return {'kind': 'fn', 'sy': sy, 'refine': 1, 'mean': 37.5,
                'grid': 'sub-%x' % m,
                'levels': [z for k, z in enumerate(menu) if m >> k & 1]}
    return [Space('compute_rise_curve/Sy sets x grids x refinement x mean',
                  len(fn), decode),
            Space('compute_rise_curve/Sy sets x every sub-grid of the menu',
                  len(masks) * len(SY_SETS), decode_sub, decoy_every=1024),
            Space('main(simulate rise)/datasets x parameter files x form',
                  len(cli), decode_cli)]


class Refused(Exception):
    pass


def make_sy(name):
    pars = simdata.parameters(name, 'field')
    try:
        sy = sy_mod.create_specific_yield_function(
            dict(pars['specific_yield']))
    except ValueError as exc:
        raise Refused(repr(exc))
    return (sy, simdata.sy_breaks(pars), pars)


def refine(grid, r):
    out = []
    for a, b in zip(grid, grid[1:]):
        for k in range(r):
            out.append(a + (b - a) * k / r)
    out.append(grid[-1])
    return out


def reference_curve(sy, breaks, grid, mean):
    w = [0.0]
    for a, b in zip(grid, grid[1:]):
        w.append(w[-1] + hydraulics.piecewise_gl2(sy, a, b, breaks))
    shift = mean - sum(w) / len(w)
    return [x + shift for x in w]


def run_fn(case):
    sy, breaks, _ = make_sy(case['sy'])
    base = case.get('levels') or GRIDS[case['grid']]
    grid = refine(base, case['refine'])
    viol = []
    try:
        W = [float(x) for x in sim_mod.compute_rise_curve(
            sy, np.array(grid, dtype=case.get('dtype', 'float64')),
            mean_storage_mm=case['mean'])]
    except Exception as exc:  # pylint: disable=broad-except
        return Result(viol=[('crash:' + cs.exc_site(exc), repr(exc)[:200])],
                      nontrivial=True, outcome='exc')
    ref = reference_curve(sy, breaks, grid, case['mean'])
    span = abs(ref[-1] - ref[0]) + 1.0
    tol = 1e-9 * span
    for j in range(len(grid)):
        if not abs((W[j] - W[0]) - (ref[j] - ref[0])) <= tol:
            viol.append((
                'difference-is-not-the-integral',
                'Sy=%s grid=%r: W[%d]-W[0] = %r, integral of Sy from %r to '
                '%r = %r' % (case['sy'], grid[:3], j, W[j] - W[0], grid[0],
                             grid[j], ref[j] - ref[0])))
            break
    if not abs(sum(W) / len(W) - case['mean']) <= tol + 1e-12 * abs(case['mean']):
        viol.append(('mean-not-as-requested',
                     'mean %r requested %r' % (sum(W) / len(W),
                                               case['mean'])))
    vals = [float(sy(x)) for x in refine(grid, 8)]
    if min(vals) >= 0 and any(b < a - tol for a, b in zip(W, W[1:])):
        viol.append(('decreasing', 'curve decreases although Sy >= 0'))
    if case['refine'] > 1:
        Wb = [float(x) for x in sim_mod.compute_rise_curve(
            sy, np.array(base), mean_storage_mm=case['mean'])]
        r = case['refine']
        for j in range(len(base)):
            if not abs((W[j * r] - W[0]) - (Wb[j] - Wb[0])) <= tol:
                viol.append((
                    'changes-under-refinement',
                    'level %r: %r on the refined grid, %r on the coarse '
                    'one (relative to the lowest level)'
                    % (base[j], W[j * r] - W[0], Wb[j] - Wb[0])))
                break
    return Result(viol=viol, nontrivial=len(grid) >= 3,
                  outcome='%s/%s' % (case['sy'], case['grid'][:4]),
                  obs={'levels': len(grid), 'range': W[-1] - W[0]})


def run_cli(case):
    sy, breaks, pars = make_sy(case['sy'])
    db = simdata.materialise(case['dataset'])
    ypath = simdata.write_yaml(pars)
    out = os.path.join(cs.tmpdir(), 'sim-%d.yml' % os.getpid())
    argv = ['simulate', 'rise', db, ypath, '-o', out]
    if case['observations']:
        argv.append('--observations')
    status, _, _, exc = cs.run_main(argv)
    viol = []
    connection = sqlite3.connect(db)
    view = simdata.master_curve(connection, 'rise')
    connection.close()
    os.unlink(db)
    if status != 0:
        return Result(viol=[('command-failed', repr(exc)[:200])],
                      nontrivial=True, outcome='exc')
    import gc
    gc.collect()   # argparse leaves the output file to the collector
    with open(out) as f:
        text = f.read()
    os.unlink(out)
    try:
        doc = yaml.safe_load(text)
    except yaml.YAMLError as err:
        return Result(viol=[('output-not-yaml', repr(err)[:200])],
                      nontrivial=True, outcome='bad-yaml')
    levels = [z for z, _ in view]
    measured = [v for _, v in view]
    ref = reference_curve(sy, breaks, levels, sum(measured) / len(measured))
    span = abs(ref[-1] - ref[0]) + 1.0
    tol = 1e-9 * span
    if case['observations']:
        if not isinstance(doc, list) or len(doc) != len(levels):
            viol.append(('vector-shape', 'got %r' % (doc,)))
        elif any(not abs(a - b) <= tol for a, b in zip(doc, ref)):
            viol.append(('vector-values',
                         'simulated vector %r, expected (ascending level) %r'
                         % (doc[:3], ref[:3])))
    else:
        if (not isinstance(doc, list) or len(doc) != len(levels) + 1
                or doc[0] != ['Water level, mm', 'Measured storage, mm',
                              'Simulated storage, mm']):
            viol.append(('table-shape', 'got %r' % (doc[:2],)))
        else:
            for row, z, m, s in zip(doc[1:], levels, measured, ref):
                if (len(row) != 3 or not abs(row[0] - z) <= 1e-9 * (
                        abs(z) + 1) or not abs(row[1] - m) <= 1e-12 * (
                            abs(m) + 1)
                        or not abs(row[2] - s) <= tol):
                    viol.append((
                        'table-row',
                        'row %r, expected level %r mm, measured %r, '
                        'simulated %r' % (row, z, m, s)))
                    break
    return Result(viol=viol, nontrivial=len(levels) >= 3,
                  outcome='%s/%d/%s' % (case['sy'], case['dataset'],
                                        case['observations']),
                  obs={'levels': len(levels)})


def run_case(case):
    try:
        if case['kind'] == 'fn':
            return run_fn(case)
        return run_cli(case)
    except Refused as exc:
        # a parameter set the code does not accept is outside the property
        return Result(nontrivial=False, outcome='refused',
                      counters={'parameter_sets_refused': 1},
                      obs={'refused': str(exc)[:120]})
