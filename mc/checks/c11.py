"""C11 - timestamps are converted exactly and bad input is refused."""

import bisect
import datetime
import io
import os
import sqlite3

import pytz

import spowtd.load as load_mod

from mc.engine import Space, Result, InternalError
from mc.lib import classify_spaces as cs
from mc.lib import records

ID = 'C11'
LEVEL = 'exploration'
# fewer non-trivial cases than this share of all cases means that the
# exploration has become vacuous (reported as INTERNAL-ERROR, never as a pass)
MIN_NONTRIVIAL_FRACTION = 0.3
RULE = (
    'Timestamp lattice: every zone of the installed pytz x local datetimes '
    'at each UTC transition of the zone (both offsets) -1 d, -1 h, -1 s, 0, '
    '+1 s, +1 h, +1 d, plus one date per decade 1900-2037, through the real '
    'generate_timestamped_rows; oracle: rendering the stored epoch in the '
    'zone (UTC -> local by bisection of the zone\'s transition table, the '
    'opposite direction and a different code path from localize) gives back '
    'the text; the same for whole records handed over in one call (400 '
    'daily and 300 twelve-hourly stamps starting 30 days before a '
    'transition, so that the record leaves an offset period and returns to '
    'it).  Local times that no instant renders to are not members; for '
    'ambiguous ones either instant is accepted.  End to end: `spowtd load` '
    'of a record spanning a zone transition, staging and grid epochs '
    'compared with the UTC instants the texts were rendered from.  '
    'Malformed inputs: from each valid triple, delete each interior rain '
    'row of the span, delete each ET row at a grid step, move it off the '
    'grid, double the ET sampling rate with that row absent, load twice, load '
    'after a load that failed part-way on the same connection; '
    'oracle: refusal (non-zero exit / exception) and, for the double load, '
    'unchanged dump.  Non-trivial = an existing local datetime within one '
    'day of a transition, or a malformed input.')
ASSUMPTIONS = [
    'the transition tables of the installed pytz (tzdata as shipped) define '
    'what "rendering in that zone" means',
    'whole seconds only; years 1900-2037',
]
FMT = records.FMT
DELTAS = (-86400, -3600, -1, 0, 1, 3600, 86400)
MORE_DELTAS = (-172800, -43200, -7200, -1800, -900, 900, 1800, 7200, 43200,
               172800)
EPOCH0 = datetime.datetime(1970, 1, 1)
ZONES = sorted(pytz.all_timezones)
_CANDS = {}


def decoy():
    from mc.lib import decoy as decoy_mod
    decoy_mod.classification().close()


def BOUND(tier):
    return {
        'quick': 'all %d zones; every transition 1900-2037 at 7 offsets; '
                 'end-to-end load and year-long records for 40 zones; malformed variants of '
                 'triples with 4..5 rain steps' % len(ZONES),
        'thorough': 'all %d zones; every transition 1900-2037 at 17 offsets; end-to-end '
                    'load and year-long records for every zone with a transition after 1971; '
                    'malformed variants of triples with 4..7 rain steps'
                    % len(ZONES),
    }[tier]


def render(epoch, tz):
    """UTC epoch -> naive local datetime, from the transition table"""
    utc = EPOCH0 + datetime.timedelta(seconds=epoch)
    trans = getattr(tz, '_utc_transition_times', None)
    if trans:
        idx = max(0, bisect.bisect_right(trans, utc) - 1)
        off = tz._transition_info[idx][0]
    elif hasattr(tz, '_utcoffset'):
        off = tz._utcoffset
    else:
        off = datetime.timedelta(0)
    return utc + off


def offsets_of(tz):
    if getattr(tz, '_utc_transition_times', None):
        return {info[0] for info in tz._transition_info}
    if hasattr(tz, '_utcoffset'):
        return {tz._utcoffset}
    return {datetime.timedelta(0)}


def instants_rendering_to(local, tz):
    out = []
    for off in offsets_of(tz):
        e = int((local - off - EPOCH0).total_seconds())
        if render(e, tz) == local:
            out.append(e)
    return sorted(set(out))


def candidates(zone, tier):
    key = (zone, tier)
    if key in _CANDS:
        return _CANDS[key]
    tz = pytz.timezone(zone)
    out = []
    trans = getattr(tz, '_utc_transition_times', None)
    if trans:
        infos = tz._transition_info
        idxs = [i for i in range(1, len(trans))
                if 1900 <= trans[i].year <= 2037]
        deltas = DELTAS if tier == 'quick' else DELTAS + MORE_DELTAS
        for i in idxs:
            for j in (i - 1, i):
                for d in deltas:
                    out.append((trans[i] + infos[j][0]
                                + datetime.timedelta(seconds=d), True))
    for year in range(1900, 2038, 10):
        out.append((datetime.datetime(year, 6, 15, 12, 0, 0), False))
    seen = set()
    out = [x for x in out if not (x[0] in seen or seen.add(x[0]))]
    _CANDS[key] = out
    return out


def stamp_space(tier):
    index = []
    for zi, zone in enumerate(ZONES):
        for k in range(len(candidates(zone, tier))):
            index.append((zi, k))

    def decode(i):
        zi, k = index[i]
        when, near = candidates(ZONES[zi], tier)[k]
        return {'kind': 'stamp', 'zone': ZONES[zi],
                'text': when.strftime(FMT), 'near_transition': near}
    return Space('generate_timestamped_rows/all zones', len(index), decode,
                 decoy_every=20000)


def dst_zones(tier):
    out = []
    for zone in ZONES:
        tz = pytz.timezone(zone)
        trans = getattr(tz, '_utc_transition_times', None)
        if not trans:
            continue
        idxs = [i for i in range(1, len(trans)) if trans[i].year >= 1971
                and trans[i].year <= 2037]
        if idxs:
            out.append((zone, idxs))
    if tier == 'quick':
        step = max(1, len(out) // 40)
        out = out[::step][:40]
    return out


def e2e_space(tier):
    zones = dst_zones(tier)
    index = []
    for zone, idxs in zones:
        picks = idxs[-2:] if tier == 'quick' else idxs[-4:]
        for i in picks:
            index.append((zone, i))

    def decode(i):
        zone, ti = index[i]
        return {'kind': 'e2e', 'zone': zone, 'transition': ti}
    return Space('main(load) across a zone transition', len(index), decode)


SHAPES = [(0, 0), (1, 0), (0, 1), (1, 1)]   # level starts/ends inside by k


def malformed_space(tier):
    ns = (4, 5) if tier == 'quick' else (4, 5, 6, 7)
    index = []
    for n in ns:
        for (a, b) in SHAPES:
            lo, hi = a, n - 1 - b
            grid = list(range(lo, hi + 1))
            if len(grid) < 3:
                continue
            # removing an interior stamp leaves non-uniform steps only if
            # at least three stamps remain
            for k in (grid[1:-1] if len(grid) >= 4 else []):
                index.append((n, a, b, 'drop-rain', k))
            for k in grid:
                index.append((n, a, b, 'drop-et', k))
                # ET for step k present only at an off-grid instant, and ET
                # sampled twice as often with the on-grid row of step k absent
                index.append((n, a, b, 'shift-et', k))
                if grid[0] < k < grid[-1]:
                    # the rain AND the ET stamp of step k are both a third
                    # of a step late: steps are no longer uniform
                    index.append((n, a, b, 'displace-rain-and-et', k))
                index.append((n, a, b, 'dense-et-without', k))
            for mode in ('db', 'cli'):
                index.append((n, a, b, 'load-twice', mode))
            # a load that fails part-way, then a load on the same connection
            for bad in ('bad-level-stamp', 'bad-et-first-row'):
                index.append((n, a, b, 'load-after-failed-load', bad))

    def decode(i):
        n, a, b, what, k = index[i]
        return {'kind': 'malformed', 'n': n, 'level_from': a,
                'level_before_end': b, 'what': what, 'arg': k}
    return Space('malformed inputs', len(index), decode)


FIXED = ['Etc/GMT+5', 'Etc/GMT-10', 'Etc/GMT-3', 'Etc/GMT+12', 'Etc/UTC',
         'Asia/Kolkata', 'Asia/Kathmandu', 'America/Bogota', 'Africa/Lagos']
NAME_CASES = ['as listed', 'lower', 'upper']


def fixed_space():
    def decode(i):
        return {'kind': 'e2e-fixed', 'zone': FIXED[i // len(NAME_CASES)],
                'name_case': NAME_CASES[i % len(NAME_CASES)]}
    return Space('main(load) in fixed-offset zones x spelling of the zone '
                 'name', len(FIXED) * len(NAME_CASES), decode)


def series_space(tier):
    """Whole records in one call: 400 daily and 300 twelve-hourly stamps
    starting 30 days before a transition, so that the record leaves an
    offset period and comes back to it (two or more transitions inside)"""
    zones = dst_zones(tier)
    index = []
    for zone, idxs in zones:
        for i in (idxs[-2:] if tier == 'quick' else idxs[-4:]):
            for step_h, count in ((24, 400), (12, 300)):
                index.append((zone, i, step_h, count))

    def decode(i):
        zone, ti, step_h, count = index[i]
        return {'kind': 'series', 'zone': zone, 'transition': ti,
                'step_h': step_h, 'count': count}
    return Space('generate_timestamped_rows/records of 300-400 stamps '
                 'across several transitions', len(index), decode)


def run_series(case):
    tz = pytz.timezone(case['zone'])
    T = tz._utc_transition_times[case['transition']]
    start = (T - datetime.timedelta(days=30)).replace(
        hour=11, minute=30, second=0, microsecond=0)
    locals_ = [start + datetime.timedelta(hours=case['step_h'] * k)
               for k in range(case['count'])]
    # only local times that exactly one instant renders to
    keep = [(l, instants_rendering_to(l, tz)) for l in locals_]
    keep = [(l, m[0]) for l, m in keep if len(m) == 1]
    rows = [[l.strftime(FMT), str(k)] for k, (l, _) in enumerate(keep)]
    try:
        got = list(load_mod.generate_timestamped_rows(
            [list(r) for r in rows], tz))
    except Exception as exc:  # pylint: disable=broad-except
        return Result(viol=[('existing-time-refused',
                             'record of %d stamps in %s raised %r'
                             % (len(rows), case['zone'], exc))],
                      nontrivial=True, outcome='exc')
    viol = []
    if len(got) != len(rows):
        viol.append(('row-count', '%d rows in, %d out' % (len(rows),
                                                          len(got))))
    else:
        for (l, want), row, src in zip(keep, got, rows):
            if row[0] != want or list(row[1:]) != src[1:]:
                viol.append((
                    'wrong-instant-in-record',
                    '%s in %s (row %s of a record of %d) stored as %r, the '
                    'instant rendering to it is %d (off by %s s)'
                    % (src[0], case['zone'], src[1], len(rows), row[0],
                       want, row[0] - want if isinstance(row[0], int)
                       else '?')))
                break
    offs = {render(m, tz) - (EPOCH0 + datetime.timedelta(seconds=m))
            for _, m in keep}
    return Result(viol=viol, nontrivial=len(offs) > 1,
                  outcome='%d offsets' % len(offs),
                  counters={'stamps_in_records': len(rows)},
                  obs={'rows': len(rows), 'offsets': len(offs)})


def spaces(tier):
    return [malformed_space(tier), fixed_space(), e2e_space(tier),
            series_space(tier), stamp_space(tier)]


# ------------------------------------------------------------------ runs

def run_stamp(case):
    tz = pytz.timezone(case['zone'])
    text = case['text']
    local = datetime.datetime.strptime(text, FMT)
    members = instants_rendering_to(local, tz)
    try:
        rows = list(load_mod.generate_timestamped_rows([[text, '1.5']], tz))
    except Exception as exc:  # pylint: disable=broad-except
        if not members:
            return Result(nontrivial=False, outcome='nonexistent-refused',
                          counters={'nonexistent_local_times': 1})
        return Result(viol=[('existing-time-refused',
                             '%s in %s raised %r' % (text, case['zone'],
                                                     exc))],
                      nontrivial=True, outcome='exc')
    epoch = rows[0][0]
    if not members:
        return Result(nontrivial=False, outcome='nonexistent',
                      counters={'nonexistent_local_times': 1},
                      obs={'epoch': epoch})
    viol = []
    if not isinstance(epoch, int) or rows[0][1:] != ['1.5']:
        viol.append(('row-shape', 'row %r' % (rows[0],)))
    elif render(epoch, tz).strftime(FMT) != text:
        viol.append((
            'wrong-instant',
            '%s in %s stored as %d, which renders as %s (instants rendering '
            'to the text: %r; off by %s s)'
            % (text, case['zone'], epoch, render(epoch, tz).strftime(FMT),
               members, min(abs(epoch - m) for m in members))))
    counters = {}
    if len(members) > 1:
        counters['ambiguous_local_times'] = 1
    near = bool(case.get('near_transition'))
    return Result(viol=viol, nontrivial=near, outcome=str(epoch - members[0]),
                  counters=counters,
                  obs={'epoch': epoch, 'renders_as':
                       render(epoch, tz).strftime(FMT)})


def run_e2e(case):
    tz = pytz.timezone(case['zone'])
    T = tz._utc_transition_times[case['transition']]
    t_epoch = int((T - EPOCH0).total_seconds())
    dt = 3600
    base = (t_epoch // dt) * dt - 4 * dt
    n = 9
    epochs = [base + k * dt for k in range(n + 1)]
    texts = [render(e, tz).strftime(FMT) for e in epochs]
    # ambiguous texts (fall-back hour) make two rows collide or shift: the
    # statement accepts either instant, so only unambiguous records are
    # members of the end-to-end space
    local = [datetime.datetime.strptime(t, FMT) for t in texts]
    amb = [t for t, l in zip(texts, local)
           if len(instants_rendering_to(l, tz)) != 1]
    p = records.csv_text('datetime,p', [(texts[k], 0.25 * k)
                                       for k in range(n)])
    e = records.csv_text('datetime,e', [(texts[k], 0.01 * k + 1)
                                       for k in range(n + 1)])
    z = records.csv_text('datetime,z', [(texts[k], 10.0 - k)
                                       for k in range(n)])
    db = os.path.join(cs.tmpdir(), 'c11.sqlite3')
    status, _, _, exc = cs.cli_load(db, p, e, z, case['zone'])
    if amb:
        if os.path.exists(db):
            os.unlink(db)
        return Result(nontrivial=False, outcome='ambiguous-record',
                      counters={'e2e_records_with_ambiguous_hour': 1},
                      obs={'status': status})
    if status != 0:
        if os.path.exists(db):
            os.unlink(db)
        return Result(viol=[('valid-record-refused',
                             'load refused a uniform record across the '
                             'transition of %s: %r' % (case['zone'], exc))],
                      nontrivial=True, outcome='refused')
    connection = sqlite3.connect(db)
    viol = []
    try:
        got = {
            'rain': [r[0] for r in connection.execute(
                'SELECT epoch FROM rainfall_intensity_staging ORDER BY 1')],
            'et': [r[0] for r in connection.execute(
                'SELECT epoch FROM evapotranspiration_staging ORDER BY 1')],
            'level': [r[0] for r in connection.execute(
                'SELECT epoch FROM water_level_staging ORDER BY 1')],
            'grid': [r[0] for r in connection.execute(
                'SELECT epoch FROM grid_time ORDER BY 1')],
        }
    finally:
        connection.close()
        os.unlink(db)
    want = {'rain': epochs[:n], 'et': epochs, 'level': epochs[:n],
            'grid': epochs[:n] + [epochs[n - 1] + dt]}
    for name in want:
        if got[name] != want[name]:
            viol.append(('e2e-' + name,
                         '%s epochs %r, expected %r (zone %s, texts %r)'
                         % (name, got[name][:4], want[name][:4],
                            case['zone'], texts[:4])))
    return Result(viol=viol, nontrivial=True, outcome=repr(got['grid'][0]
                                                           - base),
                  obs={'first_text': texts[0], 'first_epoch': got['grid'][0]})


def triple(case):
    n = case['n']
    dt = 1800
    t0 = records.T0_DEFAULT
    rain = [(t0 + k * dt, 1.0 + k) for k in range(n)]
    et = [(t0 + k * dt, 0.5 + 0.01 * k) for k in range(-1, n + 2)]
    lo = case['level_from']
    hi = n - 1 - case['level_before_end']
    level = [(t0 + k * dt, 50.0 - 1.5 * k) for k in range(lo, hi + 1)]
    return dt, t0, rain, et, level


def rows_text(header, rows):
    return records.csv_text(header, [(records.stamp(t), v) for t, v in rows])


def run_malformed(case):
    dt, t0, rain, et, level = triple(case)
    what = case['what']
    viol = []
    if what == 'load-twice':
        p, e, z = (rows_text('datetime,p', rain), rows_text('datetime,e', et),
                   rows_text('datetime,z', level))
        if case['arg'] == 'cli':
            db = os.path.join(cs.tmpdir(), 'c11m.sqlite3')
            status, _, _, exc = cs.cli_load(db, p, e, z)
            if status != 0:
                raise InternalError('valid triple refused: %r' % (exc,))
            c = sqlite3.connect(db)
            before = records.dump(c)
            c.close()
            pp = [os.path.join(os.path.dirname(db), f)
                  for f in ('p.txt', 'e.txt', 'z.txt')]
            status2, _, _, exc2 = cs.run_main(
                ['load', db, '-p', pp[0], '-e', pp[1], '-z', pp[2],
                 '--timezone', 'UTC'])
            c = sqlite3.connect(db)
            after = records.dump(c)
            c.close()
            os.unlink(db)
        else:
            c = sqlite3.connect(':memory:')
            records.load_texts(c, p, e, z)
            before = records.dump(c)
            status2, exc2 = 0, None
            try:
                records.load_texts(c, p, e, z)
            except Exception as err:  # pylint: disable=broad-except
                status2, exc2 = 1, err
            c.rollback()
            after = records.dump(c)
            c.close()
        if status2 == 0:
            viol.append(('second-load-accepted',
                         'loading into a dataset that already holds data '
                         'succeeded'))
        if before != after:
            viol.append(('second-load-changed-data',
                         'tables changed by the refused second load: %r'
                         % [k for k in before if before[k] != after.get(k)]))
        return Result(viol=viol, nontrivial=True, outcome=str(status2),
                      obs={'refusal': repr(exc2)[:120]})
    if what == 'load-after-failed-load':
        return run_after_failed_load(case, rain, et, level)
    k = case['arg']
    if what == 'drop-rain':
        rain = [r for r in rain if r[0] != t0 + k * dt]
    elif what == 'displace-rain-and-et':
        rain = [(t + dt // 3, v) if t == t0 + k * dt else (t, v)
                for t, v in rain]
        et = [(t + dt // 3, v) if t == t0 + k * dt else (t, v)
              for t, v in et]
    elif what == 'shift-et':
        et = [(t + dt // 3, v) if t == t0 + k * dt else (t, v)
              for t, v in et]
    elif what == 'dense-et-without':
        dense = []
        for t, v in et:
            if t != t0 + k * dt:
                dense.append((t, v))
            dense.append((t + dt // 2, v + 0.001))
        et = dense
    else:
        et = [r for r in et if r[0] != t0 + k * dt]
    p, e, z = (rows_text('datetime,p', rain), rows_text('datetime,e', et),
               rows_text('datetime,z', level))
    c = sqlite3.connect(':memory:')
    try:
        records.load_texts(c, p, e, z)
        refused = None
    except Exception as err:  # pylint: disable=broad-except
        refused = err
    finally:
        c.close()
    if refused is None:
        viol.append((
            'malformed-accepted:' + what,
            '%s at step %d of the grid was loaded without an error '
            '(n=%d, level from step %d to %d)'
            % ('a missing rainfall row (non-uniform steps)'
               if what in ('drop-rain', 'displace-rain-and-et') else
               'ET missing for a grid step (%s)' % what, k,
               case['n'], case['level_from'],
               case['n'] - 1 - case['level_before_end'])))
    return Result(viol=viol, nontrivial=True, outcome=what + str(
        type(refused).__name__), obs={'refusal': repr(refused)[:120]})


def run_after_failed_load(case, rain, et, level):
    """A load that fails part-way, then a complete load on the same
    connection: either refused, or the result equals a clean load"""
    good = (rows_text('datetime,p', rain), rows_text('datetime,e', et),
            rows_text('datetime,z', level))
    # the failed download directly precedes the good one, so that a merge
    # of the two would still be a uniform record
    earlier = case['n'] * 1800
    p0 = rows_text('datetime,p', [(t - earlier, v) for t, v in rain])
    e0 = rows_text('datetime,e', [(t - earlier, v) for t, v in et])
    z0 = rows_text('datetime,z', [(t - earlier, v) for t, v in level])
    if case['arg'] == 'bad-level-stamp':
        # fails at the last water-level row: rain, ET and most of the level
        # record of the earlier period are already staged
        z0 += '2019-12-22 24:00:00,1.0\n'
    else:
        # fails at the first ET row: only the earlier rainfall is staged
        lines = e0.split('\n')
        lines[1] = '2019-13-45 00:00:00,' + lines[1].split(',')[1]
        e0 = '\n'.join(lines)
    clean = sqlite3.connect(':memory:')
    records.load_texts(clean, *good)
    want = records.dump(clean)
    clean.close()
    c = sqlite3.connect(':memory:')
    viol = []
    try:
        try:
            records.load_texts(c, p0, e0, z0)
            first = None
        except Exception as err:  # pylint: disable=broad-except
            first = err
        try:
            records.load_texts(c, *good)
            second = None
        except Exception as err:  # pylint: disable=broad-except
            second = err
        if second is None:
            try:
                got = records.dump(c)
            except sqlite3.Error as err:
                got = repr(err)
            if got != want:
                viol.append((
                    'load-into-leftovers-of-failed-load',
                    'a load that failed (%r) left data behind; the next '
                    'load on the same connection was accepted and the '
                    'dataset differs from a clean load in %r'
                    % (first, [k for k in want
                               if not isinstance(got, dict)
                               or got.get(k) != want[k]])))
    finally:
        c.close()
    return Result(viol=viol, nontrivial=first is not None,
                  outcome='%s/%s' % (type(first).__name__,
                                     type(second).__name__),
                  obs={'first': repr(first)[:100],
                       'second': repr(second)[:100]})


def run_e2e_fixed(case):
    """A record loaded through the command line in a zone without
    transitions in 2020: stored epochs = instants rendering to the texts"""
    tz = pytz.timezone(case['zone'])
    dt = 1800
    base = records.T0_DEFAULT + 86400 * 40
    n = 6
    epochs = [base + k * dt for k in range(n + 1)]
    texts = [render(e, tz).strftime(FMT) for e in epochs]
    p = records.csv_text('datetime,p', [(texts[k], 0.25 * k)
                                       for k in range(n)])
    e = records.csv_text('datetime,e', [(texts[k], 0.01 * k + 1)
                                       for k in range(n + 1)])
    z = records.csv_text('datetime,z', [(texts[k], 10.0 - k)
                                       for k in range(n)])
    db = os.path.join(cs.tmpdir(), 'c11f.sqlite3')
    name = {'lower': case['zone'].lower(), 'upper': case['zone'].upper()
            }.get(case.get('name_case'), case['zone'])
    status, _, _, exc = cs.cli_load(db, p, e, z, name)
    if status != 0 and name != case['zone']:
        # a spelling of the name that is not accepted: nothing to judge
        if os.path.exists(db):
            os.unlink(db)
        return Result(nontrivial=False, outcome='name-not-accepted',
                      counters={'zone_name_spellings_refused': 1})
    if status != 0:
        if os.path.exists(db):
            os.unlink(db)
        return Result(viol=[('valid-record-refused',
                             'load --timezone %s refused a valid record: %r'
                             % (case['zone'], exc))],
                      nontrivial=True, outcome='refused')
    connection = sqlite3.connect(db)
    try:
        grid = [r[0] for r in connection.execute(
            'SELECT epoch FROM grid_time ORDER BY 1')]
    finally:
        connection.close()
        os.unlink(db)
    viol = []
    want = epochs[:n] + [epochs[n - 1] + dt]
    if grid != want:
        viol.append(('e2e-fixed-zone',
                     'declared zone %s: first grid epoch %r, the text %r is '
                     'the instant %r there (off by %r s)'
                     % (name, grid[:1], texts[0], want[0],
                        (grid[0] - want[0]) if grid else None)))
    return Result(viol=viol, nontrivial=True, outcome=repr(
        (grid[0] - want[0]) if grid else None))


def run_case(case):
    if case['kind'] == 'e2e-fixed':
        return run_e2e_fixed(case)
    if case['kind'] == 'stamp':
        return run_stamp(case)
    if case['kind'] == 'e2e':
        return run_e2e(case)
    if case['kind'] == 'series':
        return run_series(case)
    return run_malformed(case)
