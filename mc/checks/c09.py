"""C09 - the reference water level is the origin of the master curve."""

import decimal
import os
import sqlite3

import spowtd.classify as classify_mod
import spowtd.recession as recession_mod
import spowtd.rise as rise_mod
import spowtd.zeta_grid as zeta_grid_mod

from mc.engine import Space, Result, InternalError
from mc.lib import classify_spaces as cs
from mc.lib import events, records

ID = 'C09'
LEVEL = 'exploration'
# fewer non-trivial cases than this share of all cases means that the
# exploration has become vacuous (reported as INTERNAL-ERROR, never as a pass)
MIN_NONTRIVIAL_FRACTION = 0.5
RULE = (
    'Finite lattice (grid step, k): for each grid step in {1, 0.5, 0.1, '
    '0.2, 0.3, 2.5, 5} mm and two classified datasets scaled so that the '
    'curves span >= 40 levels including negative ones (plus one dataset 1500 '
    'mm below the surface on a 0.01 mm grid: level numbers around -150000), EVERY integer k '
    'whose level lies on the assembled curve is used as reference, spelled '
    'as repr(k*step), as the decimal text a user types and in scientific '
    'notation, for both the '
    'rise and the recession curve; plus the off-grid references (k+1/2) '
    'step, (k+1/4) step and (k+1/100) step for every k, and no reference; and every on-grid '
    'reference again as the SECOND assembly of the curve (after a run without '
    'reference, after a run with another level).  Oracle: on-grid '
    '-> the command succeeds and the master curve is 0 at level k (1e-9 of '
    'the curve range); none -> 0 at the highest level; off-grid -> refused '
    'and the database unchanged; a second assembly is either refused without '
    'changing anything or leaves the curve zero at ITS reference.  Non-trivial = an on-grid reference on the '
    'curve.')
ASSUMPTIONS = [
    'references on the grid but outside the assembled curve are not judged '
    '(the curve cannot be zero where it has no value)',
    'every case is run twice: find_rise_offsets / find_recession_offsets on '
    'a clone of one classified in-memory database, and '
    'main([rise|recession, db, -r, text]) on a file copy',
]
STEPS = [1.0, 0.5, 0.1, 0.2, 0.3, 2.5, 5.0]
MORE_STEPS = [0.05, 0.15, 0.7, 1.1, 3.3, 0.6, 0.025, 7.0, 0.9]
WORDS = [
    [('S', 2, 5), ('D', 6), ('S', 3, 5), ('D', 6), ('S', 1, 3), ('D', 4),
     ('S', 2, 5), ('D', 6), ('S', 1, 2), ('D', 6)],
    [('S', 1, 3), ('D', 4), ('S', 2, 3), ('D', 6), ('S', 3, 5), ('D', 3),
     ('S', 1, 5), ('D', 6), ('S', 2, 2), ('D', 4)],
]
SHAPES = ['uniform', 'convex']
_BASE = {}


def decoy():
    from mc.lib import decoy as decoy_mod
    decoy_mod.workflow()
    decoy_mod.functions()


def BOUND(tier):
    return ('all on-curve k x {repr, decimal, scientific} spellings x {rise, recession} '
            'x 7 grid steps x 2 datasets; off-grid (k+1/2), (k+1/4) for all '
            'k; no reference; each case at function level and through '
            'main(argv)' + ('' if tier == 'quick' else
                            '; 9 more grid steps %r' % (MORE_STEPS,)))


def dataset(step, which):
    # dataset 2 is dataset 0 with the water table 1500 mm below the surface
    # (level numbers of the order 1e5 on a fine grid)
    deep = 1500.0 if which == 2 else 0.0
    which = which % 2
    ds = events.build(WORDS[which], SHAPES[which], 2.0, 3600, 18)
    if ds is None:
        raise InternalError('C09 dataset %d not in the family' % which)
    # scale so that the record spans 72 grid levels and straddles level 0
    lo, hi = min(ds['level']), max(ds['level'])
    c = step * 72.0 / (hi - lo)
    mid = lo + 0.4375 * (hi - lo)
    ds['level'] = [(z - mid) * c - deep for z in ds['level']]
    s, j = ds['thresholds']
    ds['thresholds'] = (s, j * c)
    return ds


def base_bytes(step, which):
    key = (step, which)
    if key not in _BASE:
        ds = dataset(step, which)
        connection = records.new_loaded(ds['rain'], ds['level'], ds['dt'],
                                        et=ds['et'])
        classify_mod.classify_intervals(connection, *ds['thresholds'])
        zeta_grid_mod.populate_zeta_grid(connection, step)
        connection.commit()
        _BASE[key] = connection.serialize()
        connection.close()
    return _BASE[key]


def clone(step, which):
    connection = sqlite3.connect(':memory:')
    connection.deserialize(base_bytes(step, which))
    return connection


FN = {'rise': rise_mod.find_rise_offsets,
      'recession': recession_mod.find_recession_offsets}
SQL_AT = {
    'rise': 'SELECT zeta_number, AVG(rain_depth_offset_mm + '
            'mean_crossing_depth_mm) FROM rising_interval JOIN '
            'rising_interval_zeta USING (start_epoch) GROUP BY zeta_number',
    'recession': 'SELECT zeta_number, AVG(time_offset_s + '
                 'mean_crossing_time) FROM recession_interval JOIN '
                 'recession_interval_zeta USING (start_epoch) '
                 'GROUP BY zeta_number',
}
VIEW = {'rise': 'SELECT zeta_mm, mean_crossing_depth_mm FROM '
                'average_rising_depth',
        'recession': 'SELECT zeta_mm, elapsed_time_s FROM '
                     'average_recession_time'}


def curve_levels(step, which, curve):
    connection = clone(step, which)
    try:
        FN[curve](connection, None)
        return sorted(r[0] for r in connection.execute(SQL_AT[curve]))
    finally:
        connection.close()


def spelling(kind, k, step):
    if kind == 'repr':
        return repr(k * step)
    if kind == 'sci':
        # scientific notation of the decimal value, e.g. -3.79e+01
        d = decimal.Decimal(k) * decimal.Decimal(repr(step))
        return '%e' % d if d == decimal.Decimal('%e' % d) else format(d, 'E')
    d = decimal.Decimal(repr(step))
    if kind == 'decimal':
        return format(decimal.Decimal(k) * d, 'f')
    if kind == 'half':
        return format((decimal.Decimal(k) + decimal.Decimal('0.5')) * d, 'f')
    if kind == 'quarter':
        return format((decimal.Decimal(k) + decimal.Decimal('0.25')) * d,
                      'f')
    if kind == 'hundredth':
        return format((decimal.Decimal(k) + decimal.Decimal('0.01')) * d,
                      'f')
    raise InternalError(kind)


def spaces(tier):
    out = []
    vias = ['fn', 'cli']
    for step in (STEPS + [0.01] if tier == 'quick'
                 else STEPS + [0.01] + MORE_STEPS):
        index = []
        for which in (range(len(WORDS)) if step != 0.01
                      else (2,)):
            for curve in ('rise', 'recession'):
                try:
                    ks = curve_levels(step, which, curve)
                except Exception:  # pylint: disable=broad-except
                    # reported as a violation by the 'none' case below
                    for via in vias:
                        index.append((which, curve, None, 'none', via, None))
                    continue
                if len(ks) < 40 or (which != 2 and (ks[0] >= 0
                                                    or ks[-1] <= 0)):
                    raise InternalError(
                        'C09 dataset %d: %s curve at step %r spans only '
                        'levels %r..%r' % (which, curve, step,
                                           ks[:1], ks[-1:]))
                for via in vias:
                    index.append((which, curve, None, 'none', via, None))
                    for k in ks:
                        for sp in ('repr', 'decimal', 'sci', 'half',
                                   'quarter', 'hundredth'):
                            index.append((which, curve, k, sp, via, None))
                        if via == 'fn':
                            # the same number as a numpy scalar, and as a
                            # Python integer when it is whole
                            index.append((which, curve, k, 'npfloat', via,
                                          None))
                            if float(k * step).is_integer():
                                index.append((which, curve, k, 'pyint', via,
                                              None))
                        # the same command as the SECOND assembly of that
                        # curve: after a run without reference and after a
                        # run with another reference level
                        other = ks[len(ks) // 2] if k != ks[len(ks) // 2] \
                            else ks[0]
                        index.append((which, curve, k, 'decimal', via,
                                      'none'))
                        index.append((which, curve, k, 'decimal', via,
                                      other))

        def decode(i, index=index, step=step):
            which, curve, k, sp, via, prior = index[i]
            return {'step': step, 'dataset': which, 'curve': curve, 'k': k,
                    'spelling': sp, 'via': via, 'prior': prior}
        out.append(Space('reference levels/step=%g' % step, len(index),
                         decode))
    return out


def run_case(case):
    step, which, curve = case['step'], case['dataset'], case['curve']
    k, sp, via = case['k'], case['spelling'], case['via']
    as_type = None
    if sp in ('npfloat', 'pyint'):
        as_type, sp = sp, 'repr'
    text = None if sp == 'none' else spelling(sp, k, step)
    ref = None if text is None else float(text)
    if as_type == 'npfloat':
        import numpy as np
        ref = np.float64(ref)
    elif as_type == 'pyint':
        ref = int(ref)
    db = None
    prior = case.get('prior')
    prior_text = None
    if prior is not None and prior != 'none':
        prior_text = spelling('decimal', prior, step)
    if via == 'cli':
        db = os.path.join(cs.tmpdir(), 'c09.sqlite3')
        with open(db, 'wb') as f:
            f.write(base_bytes(step, which))
        if prior is not None:
            cs.run_main([curve, db] + (
                [] if prior_text is None
                else ['--reference-zeta-mm=' + prior_text]))
        before_conn = sqlite3.connect(db)
        before = records.dump(before_conn)
        before_conn.close()
        argv = [curve, db] + ([] if text is None else ['-r', text])
        if text is not None and text.startswith('-'):
            argv = [curve, db, '--reference-zeta-mm=' + text]
        status, _, _, exc = cs.run_main(argv)
        connection = sqlite3.connect(db)
        err = None if status == 0 else exc
    else:
        connection = clone(step, which)
        if prior is not None:
            try:
                FN[curve](connection, None if prior_text is None
                          else float(prior_text))
            except Exception:  # pylint: disable=broad-except
                connection.rollback()
        before = records.dump(connection)
        err = None
        try:
            FN[curve](connection, ref)
        except Exception as exc:  # pylint: disable=broad-except
            connection.rollback()
            err = exc
    viol = []
    try:
        values = dict(connection.execute(SQL_AT[curve]).fetchall())
        view = connection.execute(VIEW[curve]).fetchall()
        after = records.dump(connection)
    finally:
        connection.close()
        if db:
            os.unlink(db)
    where = '%s -r %s%s (level %r x step %r, dataset %d, via %s%s)' % (
        curve, text, '' if as_type is None else ' passed as ' + as_type,
        k, step, which, via,
        '' if prior is None else ', as second assembly after %s -r %s'
        % (curve, prior_text))
    nontrivial = False
    if sp in ('repr', 'decimal', 'sci', 'none'):
        nontrivial = sp != 'none'
        if err is not None and prior is not None:
            # a second assembly may be refused, but then nothing may change
            if after != before:
                viol.append(('refused-second-assembly-changed-database:'
                             + curve, where))
        elif err is not None:
            viol.append(('on-grid-reference-refused:' + curve,
                         '%s failed: %r' % (where, err)))
        else:
            target = max(values) if sp == 'none' else k
            span = max(values.values()) - min(values.values())
            if target not in values:
                viol.append(('reference-level-not-on-curve', where))
            elif not abs(values[target]) <= 1e-9 * span:
                zero = min(values, key=lambda n: abs(values[n]))
                viol.append((
                    'origin-at-wrong-level:' + curve,
                    '%s: master curve is %r at the reference level and '
                    'closest to zero at level %d' % (where, values[target],
                                                     zero)))
            else:
                # the view must agree with the tables at that level
                near = [v for z, v in view
                        if abs(z - target * step) < step / 4]
                if len(near) != 1 or not abs(near[0]) <= 1e-9 * span:
                    viol.append(('view-disagrees', '%s: view rows %r'
                                 % (where, near)))
    else:
        nontrivial = True
        if err is None:
            viol.append(('off-grid-reference-accepted:' + curve,
                         '%s succeeded' % where))
        elif after != before:
            viol.append(('refused-reference-changed-database:' + curve,
                         where))
    return Result(viol=viol, nontrivial=nontrivial,
                  outcome='%s:%s' % (sp, type(err).__name__),
                  obs={'reference_text': text, 'error': repr(err)[:100]})
