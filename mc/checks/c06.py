"""C06 - a planted master curve is recovered end-to-end."""

import os
import sqlite3
from fractions import Fraction

from mc.engine import Space, Result
from mc.lib import classify_spaces as cs
from mc.lib import crossings, events

ID = 'C06'
LEVEL = 'model_checking'
# fewer non-trivial cases than this share of all cases means that the
# exploration has become vacuous (reported as INTERNAL-ERROR, never as a pass)
MIN_NONTRIVIAL_FRACTION = 0.15
RULE = (
    'Event words (storm of k heavy steps lifting the level `up` lattice '
    'points + one light step; dry spell of d steps) generated from a planted '
    'truth (recession curve piecewise linear on the sampling lattice: '
    'uniform, convex, concave; constant specific yield 0.5 or 2) are written '
    'to text files / loaded, and the whole real workflow load -> classify -> '
    'set-zeta-grid -> rise -> recession is run on every word of the stated '
    'length, with the complete record and with one water-level sample '
    'missing inside each dry spell in turn (two gap-free stretches); with '
    'the light step after each storm placed exactly at both thresholds; and '
    'as a state invariant after every sequence of up to 4 (5) workflow steps.  Oracle: average_recession_time(z) - T_truth(z) and '
    'average_rising_depth(z) - Sy z are constant over the curve; all '
    'aligned pieces coincide wherever they overlap; a curve must be '
    'assembled whenever two recorded pieces share a level, and a rise '
    'curve whenever two planted storms lift the level through a common '
    'grid level.  Also on one-second and one-day steps.  Words are '
    'paths of the event tree (states = events, transitions = workflow '
    'steps).  Non-trivial = both master curves were assembled and checked.')
ASSUMPTIONS = [
    'tolerance 1e-7 of the curve range (least-squares solve and brentq)',
    'truth-consistent records need one light-rain step after each storm '
    '(an increment ending at a rain-free sample is "unexplained" by C04)',
]
CONFIGS = [  # (shape, sy, dt, grid step)
    ('uniform', 2.0, 3600, 1.0),
    ('convex', 0.5, 1800, 0.5),
    ('concave', 2.0, 1200, 2.0),
    ('uniform', 0.5, 600, 0.25),
    ('convex', 2.0, 3600, 0.75),
    ('concave', 0.5, 1800, 1.0),
]
# one-second and one-day steps: intensities of thousands of mm/h and of
# hundredths of a mm/h for the same planted curves
EXTREME_STEPS = [('uniform', 2.0, 1, 1.0), ('convex', 0.5, 86400, 0.5)]
A0 = 16
# the light step after each storm sits EXACTLY at both thresholds (rain =
# storm threshold, increment = jump threshold x step); dyadic lattice and
# k in {1, 2} keep every sum exact
AT_THRESHOLD = [('uniform', 2.0, 3600, 1.0), ('uniform', 0.5, 1800, 0.5)]


def decoy():
    from mc.lib import decoy as decoy_mod
    decoy_mod.workflow()
    decoy_mod.functions()


def BOUND(tier):
    return {
        'quick': 'all words (S D)^m for m<=2 (k in 1..3, up in {2,3,5}, d in '
                 '{2,3,4,6}) on 6 (shape, Sy, dt, grid step) configurations, '
                 'database level, m=3 on one configuration; m=1 and one configuration of m=2 through main(argv)',
        'thorough': 'all words (S D)^m for m<=3 on 6 configurations, '
                    'database level; m<=2 through main(argv)',
    }[tier]


def word_space(pairs, config, cli, gaps=False):
    size, decode_word = events.word_space_events(pairs)
    variants = pairs + 1 if gaps else 1

    def decode(i):
        case = {'kind': 'cli' if cli else 'db', 'config': list(config),
                'word': decode_word(i // variants)}
        if i % variants:
            # one water-level sample missing inside the k-th dry spell: the
            # record falls into two gap-free stretches, the truth is the same
            case['gap_in_dry_spell'] = i % variants - 1
        return case
    return Space('%s/(S D)^%d%s/%s Sy=%g dt=%d step=%g' % (
        ('main(argv)' if cli else 'workflow', pairs,
         ' x {no gap, gap in each dry spell}' if gaps else '')
        + tuple(config)), size * variants, decode)


def at_threshold_space(pairs, config):
    size, decode_word = events.word_space_events(pairs, ks=(1, 2))

    def decode(i):
        return {'kind': 'db', 'config': list(config), 'at_threshold': True,
                'word': decode_word(i)}
    return Space('workflow/(S D)^%d/light step exactly at both thresholds/'
                 '%s Sy=%g dt=%d step=%g' % ((pairs,) + tuple(config)),
                 size, decode)


def sequence_space(depth):
    from mc.checks import c13
    return c13.sequence_space(depth)


def spaces(tier):
    out = [sequence_space(4 if tier == 'quick' else 5)]
    for config in AT_THRESHOLD:
        out.append(at_threshold_space(2 if tier == 'quick' else 3, config))
    for config in EXTREME_STEPS:
        out.append(word_space(1, config, True))
        out.append(word_space(2, config, False))
    if tier == 'quick':
        for config in CONFIGS:
            out.append(word_space(1, config, True))
        for config in CONFIGS:
            out.append(word_space(2, config, False, gaps=True))
        out.append(word_space(2, CONFIGS[0], True))
        out.append(word_space(3, CONFIGS[1], False))
    else:
        for config in CONFIGS:
            out.append(word_space(1, config, True))
            out.append(word_space(2, config, True))
        for config in CONFIGS:
            out.append(word_space(2, config, False, gaps=True))
            out.append(word_space(3, config, False, gaps=True))
    return out


def planted_rises_share_level(ds, step):
    import math
    from fractions import Fraction
    spans = []
    for (_first, _k, z0, z1) in ds['storms']:
        lo = math.ceil(Fraction(z0) / Fraction(step))
        hi = math.ceil(Fraction(z1) / Fraction(step)) - 1   # z1 excluded
        if hi >= lo:
            spans.append((lo, hi))
    return any(max(a[0], b[0]) <= min(a[1], b[1])
               for i, a in enumerate(spans) for b in spans[i + 1:])


def pieces_share_level(connection, kind, step):
    """Do two recorded intervals of this kind cross a common level?"""
    cur = connection.cursor()
    wl = dict(cur.execute('SELECT epoch, zeta_mm FROM water_level'))
    rows = cur.execute(
        'SELECT start_epoch, thru_epoch FROM zeta_interval '
        'WHERE interval_type = ?', (kind,)).fetchall()
    (dt,) = cur.execute('SELECT time_step_s FROM time_grid').fetchone()
    cur.close()
    seen = {}
    for start, thru in rows:
        ts = list(range(start, thru + 1, dt))
        zs = [wl[t] for t in ts]
        if kind == 'storm':
            ts, zs = [0.0, 1.0], [zs[0], zs[-1]]
        levels = set(crossings.mean_crossings(
            [float(t) for t in ts], zs, step))
        for n in levels:
            seen[n] = seen.get(n, 0) + 1
    return any(v >= 2 for v in seen.values())


def check_curves(connection, ds, step):
    viol = []
    t = events.curve_tables(connection)
    info = {}
    # ---- recession
    avg = t['average_recession_time']
    if avg:
        span = ds['dt'] * len(ds['lattice'])
        try:
            diffs = [Fraction(v) - events.truth_time(ds['lattice'], z,
                                                     ds['dt'])
                     for z, v in avg]
        except ValueError as exc:
            # the curve has points at levels the record never reached
            return [('recession-curve-not-truth',
                     'average_recession_time has a point outside the range '
                     'of the planted curve: %s (levels %r .. %r)'
                     % (exc, avg[0][0], avg[-1][0]))], info
        spread = max(diffs) - min(diffs)
        if spread > span * 1e-7:
            worst = max(range(len(avg)), key=lambda i: abs(
                diffs[i] - diffs[0]))
            viol.append((
                'recession-curve-not-truth',
                'average_recession_time - truth varies by %.6g s over the '
                'curve (e.g. level %r mm: %r s, offset %.6g vs %.6g)'
                % (float(spread), avg[worst][0], avg[worst][1],
                   float(diffs[worst]), float(diffs[0]))))
        off = dict(t['recession_interval'])
        by_level = {}
        for start, n, cross in t['recession_interval_zeta']:
            by_level.setdefault(n, []).append(off[start] + cross)
        bad = [(n, v) for n, v in by_level.items()
               if max(v) - min(v) > span * 1e-7]
        if bad:
            viol.append((
                'recession-pieces-disagree',
                'aligned recession pieces differ at level number %d: %r'
                % bad[0]))
        info['recession_levels'] = len(avg)
        info['recession_pieces'] = len(off)
    # ---- rise
    avg = t['average_rising_depth']
    if avg:
        span = ds['sy'] * (ds['lattice'][0] - ds['lattice'][-1])
        diffs = [Fraction(v) - Fraction(ds['sy']) * Fraction(z)
                 for z, v in avg]
        spread = max(diffs) - min(diffs)
        if spread > span * 1e-7:
            viol.append((
                'rise-curve-not-truth',
                'average_rising_depth - Sy z varies by %.6g mm over the '
                'curve %r' % (float(spread), avg[:4])))
        off = dict(t['rising_interval'])
        by_level = {}
        for start, n, cross in t['rising_interval_zeta']:
            by_level.setdefault(n, []).append(off[start] + cross)
        bad = [(n, v) for n, v in by_level.items()
               if max(v) - min(v) > span * 1e-7]
        if bad:
            viol.append((
                'rise-pieces-disagree',
                'aligned rises differ at level number %d: %r' % bad[0]))
        info['rise_levels'] = len(avg)
        info['rise_pieces'] = len(off)
    return viol, info


def run_sequence(case):
    """Recovery of the planted curves as an invariant of every state
    reachable by workflow step sequences (the C20 dataset is truth
    consistent: recession 1.5 mm per hourly step, specific yield 2)"""
    from mc.checks import c13
    blob = c13.state_after(case['steps'])
    connection = sqlite3.connect(':memory:')
    connection.deserialize(blob)
    ds = {'dt': 3600, 'sy': 2.0,
          'lattice': [80.0 - 1.5 * j for j in range(120)]}
    try:
        viol, info = check_curves(connection, ds, None)
    finally:
        connection.close()
    viol = [(sig, 'after the steps %r: %s' % (case['steps'], msg))
            for sig, msg in viol]
    has = bool(info)
    return Result(viol=viol, nontrivial=has, outcome=repr(sorted(
        info.items())), states=len(case['steps']) + 1,
        transitions=len(case['steps']),
        counters={'sequences_ending_in_a_state_with_curves': int(has)})


def run_case(case):
    if case.get('kind') == 'sequence':
        return run_sequence(case)
    shape, sy, dt, step = case['config']
    word = [tuple(ev) for ev in case['word']]
    ds = events.build(word, shape, sy, dt, A0,
                      eps_inc=events.THR_INC if case.get('at_threshold')
                      else events.EPS_INC)
    if ds is None:
        return Result(nontrivial=False, outcome='outside-lattice',
                      counters={'words_outside_the_truth_family': 1})
    if case.get('gap_in_dry_spell') is not None:
        first, _a, d = ds['dries'][case['gap_in_dry_spell']]
        k = first + max(1, d // 2)
        if 0 < k < len(ds['level']) - 1:
            ds['level'][k] = None
    db = None
    if case['kind'] == 'cli':
        db, errors = events.workflow_cli(ds, step)
        if 'load' in errors or 'classify' in errors \
                or 'set-zeta-grid' in errors:
            if os.path.exists(db):
                os.unlink(db)
            name = sorted(errors)[0]
            return Result(viol=[('workflow-step-failed:' + name,
                                 '%s failed: %r' % (name, errors[name]))],
                          nontrivial=True, outcome='failed')
        connection = sqlite3.connect(db)
    else:
        try:
            connection, errors = events.workflow_db(ds, step)
        except Exception as exc:  # pylint: disable=broad-except
            return Result(viol=[('workflow-step-failed:' + cs.exc_site(exc),
                                 'load/classify/grid failed: %r' % (exc,))],
                          nontrivial=True, outcome='failed')
    viol = []
    counters = {}
    try:
        for name, kind in (('rise', 'storm'), ('recession', 'interstorm')):
            if name in errors:
                if pieces_share_level(connection, kind, step):
                    viol.append((
                        'curve-not-assembled:' + name,
                        '%s failed (%r) although two recorded %s intervals '
                        'share a level' % (name, errors[name], kind)))
                else:
                    counters['words_without_overlapping_%s_pieces'
                             % name] = 1
        v, info = check_curves(connection, ds, step)
        viol += v
        # the planted storms themselves: two of them lifting the water table
        # through a common grid level are two pieces of the rise curve,
        # whatever was recorded
        if 'rise_levels' not in info and planted_rises_share_level(ds, step):
            viol.append((
                'planted-rises-not-recovered',
                'no rise curve although two planted storms lift the level '
                'through a common grid level (storms (first step, steps, '
                'from, to): %r; recorded rise pieces: %r; rise error: %r)'
                % (ds['storms'], info.get('rise_pieces', 0),
                   errors.get('rise'))))
    finally:
        connection.close()
        if db and os.path.exists(db):
            os.unlink(db)
    both = 'rise_levels' in info and 'recession_levels' in info
    if info.get('recession_pieces', 0) >= 3:
        counters['words_with_3_or_more_recession_pieces'] = 1
    return Result(viol=viol, nontrivial=both,
                  outcome=repr(sorted(info.items())),
                  states=len(word) + 1, transitions=5, counters=counters,
                  obs=info)
