"""C10 - loaded series reproduce the source data on one uniform time grid."""

import io
import itertools
import os
import sqlite3
from fractions import Fraction

import spowtd.load as load_mod

from mc.engine import Space, Result
from mc.lib import classify_spaces as cs
from mc.lib import records

ID = 'C10'
LEVEL = 'model_checking'
# fewer non-trivial cases than this share of all cases means that the
# exploration has become vacuous (reported as INTERNAL-ERROR, never as a pass)
MIN_NONTRIVIAL_FRACTION = 0.2
RULE = (
    'Every file triple of the bounded family is loaded by the real '
    'load_data (in-memory database) or `spowtd load` (files): rainfall of n '
    'steps; water level sampled at 1, 1/2, 1/3 or 2 times the rain step, '
    'aligned or offset by a quarter step, starting one step before / at / '
    'after the rain record, with every sample count from 2 up to two samples '
    'past the end of the rain record, and every mask of missing interior '
    'samples up to the stated number, and for single holes also with every '
    'later sample a quarter step late (logger restarted out of phase); ET starting at or before the grid and '
    'ending at or after the closing instant; rows sorted, reversed or '
    'rotated; zone UTC, Africa/Lagos, or Europe/Amsterdam with the rainfall '
    'record starting at a daylight-saving transition.  Oracle = reference loader in '
    'rational arithmetic written from the property statement.  A triple is '
    'a path of the generation tree (states = source samples placed, '
    'transitions = grid instants checked).  Non-trivial = the load is '
    'accepted and at least one grid instant is interpolated between two '
    'distinct source samples or lies in a gap.')
ASSUMPTIONS = [
    'inputs the loader refuses are outside the property (counted by reason)',
    'the closing grid instant carries no water level by construction and is '
    'exempt from the label rule',
    'interpolated values compared to 1e-12 relative (exact when the instant '
    'coincides with a source sample)',
]
DT = 3600
RATIOS = {'1': (1, 1), '1/2': (1, 2), '1/3': (1, 3), '2': (2, 1)}
VARIANTS = [('sorted', 'UTC'), ('reversed', 'Africa/Lagos'),
            ('rotated', 'UTC'), ('sorted', 'Europe/Amsterdam')]
ZONE_OFFSET = {'UTC': 0, 'Africa/Lagos': 3600}
# For the DST-observing zone the rainfall record starts at the instant of the
# 2020 spring-forward transition (2020-03-29 01:00 UTC), so that an ET or
# water-level file starting earlier begins on the other side of it
T0_DST = 1585443600
_GEOM = {}


def decoy():
    from mc.lib import decoy as decoy_mod
    decoy_mod.classification().close()


def BOUND(tier):
    return {
        'quick': 'rain n in 3..5; <=2 missing level samples; all level '
                 'sample counts; 4 ET variants x 4 (row order, zone) '
                 'variants; CLI: n=3, ratio 1',
        'thorough': 'rain n in 3..7; <=3 missing level samples; CLI: n<=4, '
                    'ratios 1 and 1/2',
    }[tier]


def geometries(n, ratio, max_missing):
    key = (n, ratio, max_missing)
    if key in _GEOM:
        return _GEOM[key]
    num, den = RATIOS[ratio]
    lstep = DT * num // den
    out = []
    for offset in (0, DT // 4):
        for start_shift in (-1, 0, 1):
            start = start_shift * DT + offset
            m_max = ((n + 1) * DT - start) // lstep + 1
            for m in range(2, m_max + 1):
                interior = list(range(1, m - 1))
                for k in range(0, max_missing + 1):
                    for miss in itertools.combinations(interior, k):
                        out.append((offset, start_shift, m, miss, 0))
                        if k == 1:
                            # the logger comes back out of phase: every
                            # sample after the hole is a quarter step late
                            out.append((offset, start_shift, m, miss,
                                        lstep // 4))
    _GEOM[key] = out
    return out


def space_for(n, ratio, max_missing, cli=False, far=False, fmt=None):
    geo = geometries(n, ratio, max_missing)
    size = len(geo) * 4 * len(VARIANTS)

    def decode(i):
        v = i % len(VARIANTS)
        i //= len(VARIANTS)
        et = i % 4
        i //= 4
        offset, start_shift, m, miss, rephase = geo[i]
        case = {'kind': 'cli' if cli else 'db', 'n': n, 'ratio': ratio,
                'offset': offset, 'start_shift': start_shift, 'm': m,
                'missing': list(miss), 'restart_late_by': rephase,
                'et_early': et & 1,
                'et_late': (et >> 1) & 1, 'order': VARIANTS[v][0],
                'zone': VARIANTS[v][1]}
        if fmt:
            case['format'] = fmt
        if far == 'marker':
            # levels passing through -9999 mm, a value loggers use as a
            # no-data marker but which is a level like any other here
            case.update(level_base=-10096.0)
        elif far:
            # values far from everyday ones: levels a hundred metres down,
            # cloudburst intensities, ET of a desert pan
            case.update(level_base=-100100.0, rain_factor=4096.0,
                        et_factor=64.0)
        return case
    return Space('%s/n=%d/level-step=%s x rain step/missing<=%d%s' % (
        'main(load)' if cli else 'load_data', n, ratio, max_missing,
        '/levels around -9999 mm' if far == 'marker' else
        '/large magnitudes' if far else
        '/files %s' % fmt if fmt else ''), size, decode)


def spaces(tier):
    out = []
    if tier == 'quick':
        for n in (3, 4, 5):
            for ratio in RATIOS:
                out.append(space_for(n, ratio, 2))
        out.append(space_for(3, '1', 1, cli=True))
        out.append(space_for(4, '1/2', 1, far=True))
        out.append(space_for(4, '1/2', 1, far='marker'))
        for fmt in ('crlf', 'spelled', 'quoted'):
            out.append(space_for(3, '1/2', 1, cli=(fmt == 'crlf'), fmt=fmt))
    else:
        for fmt in ('crlf', 'spelled', 'quoted'):
            out.append(space_for(4, '1/2', 1, cli=(fmt == 'crlf'), fmt=fmt))
        out.append(space_for(5, '1/2', 2, far='marker'))
        out.append(space_for(5, '1/2', 2, far=True))
        out.append(space_for(4, '1', 1, far=True))
        for n in (3, 4, 5, 6, 7):
            for ratio in RATIOS:
                out.append(space_for(n, ratio, 3))
        for n in (3, 4):
            for ratio in ('1', '1/2'):
                out.append(space_for(n, ratio, 2, cli=True))
    return out


def build(case):
    """Source rows (UTC epochs) of the three files"""
    n = case['n']
    num, den = RATIOS[case['ratio']]
    lstep = DT * num // den
    t0 = T0_DST if case['zone'] not in ZONE_OFFSET else records.T0_DEFAULT
    rain = [(t0 + k * DT, (0.5 + k) * case.get('rain_factor', 1.0))
            for k in range(n)]
    start = t0 + case['start_shift'] * DT + case['offset']
    late = case.get('restart_late_by') or 0
    first_hole = min(case['missing']) if case['missing'] else None
    level = [(start + j * lstep + (late if first_hole is not None
                                   and j > first_hole else 0),
              case.get('level_base', 0.0) + 100.0 + 0.25 * j * j - 3.0 * j)
             for j in range(case['m']) if j not in case['missing']]
    lo, hi = level[0][0], level[-1][0]
    inside = [t for t, _ in rain if lo <= t <= hi]
    first = inside[0] if inside else rain[0][0]
    closing = (inside[-1] if inside else rain[-1][0]) + DT
    e0 = first - (2 * DT if case['et_early'] else 0)
    e1 = closing + (2 * DT if case['et_late'] else 0)
    et = [(t, (0.01 * (1 + (t - t0) // DT % 17) + 1.0)
           * case.get('et_factor', 1.0))
          for t in range(e0, e1 + 1, DT)]
    return rain, et, level


def reorder(rows, order):
    if order == 'reversed':
        return list(reversed(rows))
    if order == 'rotated':
        k = len(rows) // 2
        return rows[k:] + rows[:k]
    return list(rows)


def texts(case, rain, et, level):
    if case['zone'] in ZONE_OFFSET:
        off = ZONE_OFFSET[case['zone']]

        def text(t):
            return records.stamp(t, off)
    else:
        import pytz
        from mc.checks import c11
        tz = pytz.timezone(case['zone'])

        def text(t):
            return c11.render(t, tz).strftime(records.FMT)
    out = []
    fmt = case.get('format')
    for header, rows in (('datetime,p', rain), ('datetime,e', et),
                         ('datetime,z', level)):
        body = records.csv_text(header, [
            (text(t), respell(v, k) if fmt == 'spelled' else v)
            for k, (t, v) in enumerate(reorder(rows, case['order']))])
        if fmt == 'crlf':
            body = body.replace('\n', '\r\n')
        elif fmt == 'quoted':
            body = '\n'.join(
                line if n == 0 else ','.join('"%s"' % cell
                                             for cell in line.split(','))
                for n, line in enumerate(body.split('\n')) if line) + '\n'
        out.append(body)
    return out


def respell(v, k):
    """The same number written differently: as an integer when whole, with
    a leading plus, in exponent notation (e and E), padded with blanks or with trailing
    zeros - by turns"""
    from fractions import Fraction
    base = repr(float(v))
    options = ['+' + base, base + '000', ' ' + base + ' ', '%.17e' % v,
               '%.10E' % v if float('%.10E' % v) == v else '%.17E' % v]
    if float(v).is_integer():
        options.append(str(int(v)))
    for text in options[k % len(options):] + options:
        if Fraction(float(text)) == Fraction(float(v)):
            return text
    return v


def reference(rain, et, level):
    """What the statement says the loaded tables must hold.

    Returns None if no uniform grid of at least one step exists."""
    lo, hi = level[0][0], level[-1][0]
    grid = [t for t, _ in rain if lo <= t <= hi]
    if len(grid) < 2:
        return None
    steps = {b - a for a, b in zip(grid, grid[1:])}
    if len(steps) != 1:
        return None
    (dt,) = steps
    closing = grid[-1] + dt
    rain_d = dict(rain)
    et_d = dict(et)
    dmin = min(b[0] - a[0] for a, b in zip(level, level[1:]))
    gaps = [(a[0], b[0]) for a, b in zip(level, level[1:])
            if b[0] - a[0] > dmin]
    wl = {}
    stretch = {}
    for t in grid:
        if any(a < t < b for a, b in gaps):
            wl[t] = None
            continue
        stretch[t] = sum(1 for a, b in gaps if b <= t)
        for (ta, va), (tb, vb) in zip(level, level[1:]):
            if ta <= t <= tb:
                wl[t] = (Fraction(va) + (Fraction(vb) - Fraction(va))
                         * Fraction(t - ta, tb - ta))
                break
    return {'dt': dt, 'grid': grid + [closing], 'closing': closing,
            'rain': {t: rain_d[t] for t in grid},
            'et': {t: et_d.get(t) for t in grid}, 'wl': wl,
            'stretch': stretch, 'gaps': gaps}


def compare(connection, ref, zone):
    viol = []
    cur = connection.cursor()
    tg = cur.execute(
        'SELECT time_step_s, source_time_zone FROM time_grid').fetchall()
    if tg != [(ref['dt'], zone)]:
        viol.append(('time-grid-row', 'time_grid = %r, expected %r'
                     % (tg, [(ref['dt'], zone)])))
    grid = [r[0] for r in cur.execute(
        'SELECT epoch FROM grid_time ORDER BY epoch')]
    if grid != ref['grid']:
        viol.append(('grid-instants',
                     'grid_time = %r, expected rain stamps within the level '
                     'span plus closing instant %r' % (grid, ref['grid'])))
        return viol
    dt = ref['dt']
    for table, col, want in (
            ('rainfall_intensity', 'rainfall_intensity_mm_h', ref['rain']),
            ('evapotranspiration', 'evapotranspiration_mm_h', ref['et'])):
        rows = cur.execute('SELECT from_epoch, thru_epoch, %s FROM %s '
                           'ORDER BY from_epoch' % (col, table)).fetchall()
        exp = [(t, t + dt, want[t]) for t in sorted(want)]
        if rows != exp:
            viol.append((table + '-rows', '%s = %r, expected %r'
                         % (table, rows[:8], exp[:8])))
    wl = dict(cur.execute('SELECT epoch, zeta_mm FROM water_level'))
    label = dict(cur.execute('SELECT epoch, data_interval FROM grid_time'))
    if ref['closing'] in wl:
        viol.append(('level-at-closing-instant',
                     'water level produced for the closing instant'))
    by_stretch = {}
    for t in ref['grid'][:-1]:
        want = ref['wl'][t]
        if want is None:
            if t in wl:
                viol.append(('level-inside-gap',
                             'water level %r produced at %d, strictly inside '
                             'a gap %r' % (wl[t], t, ref['gaps'])))
            if label[t] is not None:
                viol.append(('label-inside-gap',
                             'instant %d inside a gap is labelled %r'
                             % (t, label[t])))
            continue
        if t not in wl:
            viol.append(('level-missing',
                         'no water level at %d (not inside a gap)' % t))
            continue
        err = abs(Fraction(wl[t]) - want)
        if err > abs(want) * Fraction(1, 10 ** 12):
            viol.append(('level-value',
                         'water level at %d is %r, linear interpolation of '
                         'the bracketing samples gives %r'
                         % (t, wl[t], float(want))))
        if label[t] is None:
            viol.append(('label-missing', 'instant %d has no label' % t))
        else:
            by_stretch.setdefault(ref['stretch'][t], set()).add(label[t])
    if any(len(v) > 1 for v in by_stretch.values()):
        viol.append(('label-split', 'one stretch carries several labels: %r'
                     % by_stretch))
    labels = [next(iter(v)) for v in by_stretch.values() if len(v) == 1]
    if len(set(labels)) != len(labels):
        viol.append(('label-shared',
                     'two stretches separated by a gap share a label: %r'
                     % by_stretch))
    cur.close()
    seen = set()
    return [v for v in viol if not (v[0] in seen or seen.add(v[0]))]


def run_case(case):
    rain, et, level = build(case)
    counters = {}
    if len(level) < 2:
        return Result(nontrivial=False, outcome='degenerate',
                      counters={'fewer_than_two_level_samples': 1})
    ref = reference(rain, et, level)
    p, e, z = texts(case, rain, et, level)
    exc = None
    if case['kind'] == 'cli':
        db = os.path.join(cs.tmpdir(), 'c10.sqlite3')
        status, _, _, exc = cs.cli_load(db, p, e, z, case['zone'])
        connection = sqlite3.connect(db) if status == 0 else None
    else:
        connection = sqlite3.connect(':memory:')
        try:
            load_mod.load_data(connection, io.StringIO(p), io.StringIO(e),
                               io.StringIO(z), case['zone'])
        except Exception as err:  # pylint: disable=broad-except
            exc = err
            connection.close()
            connection = None
    if connection is None:
        reason = 'refused:' + cs.exc_site(exc)
        if ref is not None and all(v is not None
                                   for v in ref['et'].values()):
            reason += ':although-a-grid-exists'
        return Result(nontrivial=False, outcome=reason,
                      counters={reason: 1},
                      obs={'refused': repr(exc)[:160]})
    try:
        if ref is None:
            viol = [('loaded-without-grid',
                     'load accepted a triple with fewer than two rain '
                     'stamps inside the level span')]
        else:
            viol = compare(connection, ref, case['zone'])
    finally:
        connection.close()
        if case['kind'] == 'cli':
            os.unlink(db)
    nontrivial = False
    n_interp = 0
    if ref is not None:
        src = {t for t, _ in level}
        n_interp = sum(1 for t in ref['grid'][:-1]
                       if ref['wl'][t] is not None and t not in src)
        n_gap = sum(1 for t in ref['grid'][:-1] if ref['wl'][t] is None)
        nontrivial = bool(n_interp or n_gap)
        if n_gap:
            counters['loads_with_instant_inside_gap'] = 1
        if n_interp:
            counters['loads_with_interpolated_instant'] = 1
        if len(set(ref['stretch'].values())) > 1:
            counters['loads_with_several_stretches'] = 1
    return Result(viol=viol, nontrivial=nontrivial,
                  outcome=repr((ref['grid'], sorted(
                      (t, str(v)) for t, v in ref['wl'].items())))
                  if ref else 'none',
                  states=len(level) + 1,
                  transitions=len(ref['grid']) if ref else 1,
                  counters=counters,
                  obs={'grid_instants': len(ref['grid']) if ref else 0,
                       'interpolated': n_interp})
