"""C20 - each workflow step is all-or-nothing; independent steps commute.

Explicit-state search over histories of real step executions
(user_interface.main(argv) on a real SQLite file):

 phase 1  breadth-first search of the success graph: from every reachable
          state, every step of the alphabet is executed; states are canonical
          dumps of the file (all tables + schema, rows sorted, hashed) and are
          deduplicated; invariants (iii) "histories that differ only by
          swapping adjacent INDEPENDENT steps (classification / grid /
          curvature among themselves; rise versus recession; curvature versus
          anything) reach the same dataset" and (iv) "a step that fails on its
          own leaves the state unchanged" are evaluated on every transition.
 phase 2  fault enumeration: for every (state, step) edge of that graph and
          every fault point k of the step (counted by the fault-free run),
          the step is re-executed from an exact copy of the state with an
          injected OperationalError at point k, and again in a forked child
          that is killed (os._exit) at point k.  Invariants (i) the file then
          holds the state before or the complete result, nothing else, and
          (ii) running the step again gives exactly the success state.
"""

import hashlib
import json
import multiprocessing
import os
import re
import sqlite3
import time

from mc import engine
from mc.engine import Space, Result, InternalError
from mc.lib import classify_spaces as cs
from mc.lib import faults, records

ID = 'C20'
LEVEL = 'model_checking'
RULE = (
    'Phase 1: BFS over histories of real step executions from one (thorough: '
    'three) loaded dataset(s) (one to three gap-free stretches, three to '
    'five storms); transitions = '
    'main(argv) of every step of the alphabet from every reachable state; '
    'states = canonical dumps of the SQLite file, deduplicated by hash.  '
    'Phase 2: for every (state, step) edge and every fault point of that '
    'step (each execute / executemany / row consumed - in batches of more '
    'than 32 rows the first 32, every 97th and the last one - / explicit '
    'commit / implicit with-block commit) one execution with an injected '
    'OperationalError and one in a forked child killed at that point, '
    'followed by a re-run of the step.  A 0.01 mm grid (thousands of '
    'levels) is explored as a last step from every state where it applies, '
    'its successors are not expanded.  Non-trivial = a fault execution of '
    'a step that would otherwise have succeeded (i.e. had something to '
    'lose).  Cases are distinct (state, step, point, mode) tuples.')
ASSUMPTIONS = [
    'kill model = process death between two SQL statements (os._exit); '
    'durability below the SQLite VFS (torn pages, lying fsync) is trusted '
    'to SQLite',
    'one fault per attempt; any number of failed attempts per history is '
    'covered by state deduplication: a failed attempt returns to a state '
    'already in the graph (invariant i), from which all steps are explored',
    'which steps are expected to succeed is not part of the oracle',
]

DT = 3600
MAX_DEPTH = 14


EVENTS = [
    # two stretches (one missing sample), four storms
    ([('dry', 2), ('storm', 2), ('dry', 5), ('storm', 1), ('dry', 6),
      ('storm', 3), ('dry', 4), ('storm', 2), ('dry', 5)], [22]),
    # three stretches, five storms, record starts in heavy rain
    ([('storm', 1), ('dry', 4), ('storm', 3), ('dry', 6), ('storm', 2),
      ('dry', 3), ('storm', 2), ('dry', 6), ('storm', 1), ('dry', 4)],
     [8, 27]),
    # one stretch, three storms, ends in a storm
    ([('dry', 3), ('storm', 2), ('dry', 6), ('storm', 2), ('dry', 6),
      ('storm', 3)], []),
    # only drizzle (below the storm threshold): nothing is ever paired.  Used
    # by the step-sequence spaces of C02-C04, not by C20 itself
    ([('dry', 2), ('drizzle', 2), ('dry', 5), ('drizzle', 1), ('dry', 6),
      ('drizzle', 3), ('dry', 4)], []),
]
DATASETS = {'quick': [0], 'thorough': [0, 1, 2]}


def dataset(which=0):
    """Rain / level record: storms of heavy rain lifting the level by
    10/Sy per step with Sy = 2, dry spells falling 1.5 mm per step; missing
    level samples split the record into stretches"""
    events, missing = EVENTS[which]
    rain = []
    z = [5.0]
    for kind, n in events:
        if kind == 'dry':
            for _ in range(n):
                rain.append(0.0)
                z.append(z[-1] - 1.5)
        elif kind == 'drizzle':
            for _ in range(n):
                rain.append(1.0)
                z.append(z[-1] + 0.5)
        else:
            for _ in range(n):
                rain.append(10.0)
                z.append(z[-1] + 5.0)
            rain.append(1.0)
            z.append(z[-1] + 0.5)
    z = z[:len(rain)]
    for k in missing:
        z[k] = None
    et = [0.125 + 0.001 * k for k in range(len(rain) + 1)]
    return rain, z, et


STEPS_ALL = {
    'classify-A': ['classify', '{db}', '-s', '4', '-j', '2'],
    'classify-B': ['classify', '{db}', '-s', '4', '-j', '0.25'],
    'grid-1': ['set-zeta-grid', '{db}', '-d', '1'],
    'grid-0.5': ['set-zeta-grid', '{db}', '-d', '0.5'],
    # a grid coarser than most rises (only in C13's step sequences)
    'grid-25': ['set-zeta-grid', '{db}', '-d', '25'],
    # thousands of levels; explored as a last step only (TERMINAL)
    'grid-0.01': ['set-zeta-grid', '{db}', '-d', '0.01'],
    'curvature-1.5': ['set-curvature', '{db}', '1.5'],
    'curvature-0.25': ['set-curvature', '{db}', '0.25'],
    # steps that fail on their own AFTER part of their work is done
    'grid-0': ['set-zeta-grid', '{db}', '-d', '0'],
    'rise-offgrid': ['rise', '{db}', '-r', '0.37'],
    'recession-offgrid': ['recession', '{db}', '-r', '0.37'],
    'rise': ['rise', '{db}'],
    'rise-ref': ['rise', '{db}', '-r', '4'],
    'recession': ['recession', '{db}'],
    'recession-ref': ['recession', '{db}', '-r', '3'],
}
# steps whose successors are not expanded: every fault point of the step
# itself is explored from every state, the states behind it are not
TERMINAL = {'grid-0.01'}
ALPHABET = {
    'quick': ['classify-A', 'classify-B', 'grid-1', 'grid-0.5', 'grid-0',
              'grid-0.01',
              'curvature-1.5', 'rise', 'rise-ref', 'rise-offgrid',
              'recession', 'recession-ref', 'recession-offgrid'],
    'thorough': sorted(s_ for s_ in STEPS_ALL if s_ != 'grid-25'),
}


def BOUND(tier):
    return ('BFS to fixpoint (no new state) from %d loaded dataset(s) over '
            'the step alphabet %r; all fault points of every (state, step) '
            'edge, modes raise and kill, one fault per attempt'
            % (len(DATASETS[tier]), ALPHABET[tier]))


def selftest():
    faults.selftest()


# ----------------------------------------------------------------- state

_COUNTER = [0]
_MEMO = {}      # history tuple -> (hash, bytes)
_EDGE = {}      # (history tuple, step) -> dict(ok, hash, npoints, labels)


def fresh_path():
    _COUNTER[0] += 1
    return os.path.join(cs.tmpdir(), 'c20-%d-%d.sqlite3'
                        % (os.getpid(), _COUNTER[0]))


def cleanup(path):
    for ext in ('', '-journal', '-wal', '-shm'):
        if os.path.exists(path + ext):
            os.unlink(path + ext)


def dump_hash(path):
    connection = faults.REAL_CONNECT(path)
    try:
        d = records.dump(connection)
        schema = connection.execute(
            'SELECT type, name, sql FROM sqlite_master ORDER BY name'
        ).fetchall()
    finally:
        connection.close()
    blob = repr((schema, sorted(d.items())))
    return hashlib.sha1(blob.encode()).hexdigest()[:16], d


def argv_of(step, path):
    return [a.replace('{db}', path) for a in STEPS_ALL[step]]


def initial_state(which=0):
    key = ('@%d' % which,)
    if key in _MEMO:
        return _MEMO[key]
    rain, z, et = dataset(which)
    p, e, zz = records.make_texts(rain, z, DT, et=et)
    path = fresh_path()
    status, _, _, exc = cs.cli_load(path, p, e, zz)
    if status != 0:
        raise InternalError('initial dataset does not load: %r' % (exc,))
    h, _ = dump_hash(path)
    with open(path, 'rb') as f:
        blob = f.read()
    cleanup(path)
    _MEMO[key] = (h, blob)
    return _MEMO[key]


def materialise(blob):
    path = fresh_path()
    with open(path, 'wb') as f:
        f.write(blob)
    return path


def state_of(history):
    """(hash, bytes) of the state reached by the successful steps `history`
    from the initial dataset (memoised; rebuilt by real executions)"""
    history = tuple(history)
    if history in _MEMO:
        return _MEMO[history]
    if not history:
        history = ('@0',)
    if len(history) == 1:
        if not history[0].startswith('@'):
            raise InternalError('history %r does not start with a dataset'
                                % (history,))
        return initial_state(int(history[0][1:]))
    h, blob = state_of(history[:-1])
    path = materialise(blob)
    try:
        status, _, _, err = faults.attempt(argv_of(history[-1], path))
        if status != 'ok':
            raise InternalError('history %r: step %s did not succeed: %s'
                                % (history, history[-1], err))
        h2, _ = dump_hash(path)
        with open(path, 'rb') as f:
            blob2 = f.read()
    finally:
        cleanup(path)
    _MEMO[history] = (h2, blob2)
    return _MEMO[history]


def run_edge(history, step, want_bytes=False):
    """Execute `step` fault-free from the state of `history`"""
    history = tuple(history)
    key = (history, step)
    if key in _EDGE and not want_bytes:
        return _EDGE[key]
    h, blob = state_of(history)
    path = materialise(blob)
    try:
        status, npoints, labels, err = faults.attempt(
            argv_of(step, path), want_labels=True)
        h2, _ = dump_hash(path)
        blob2 = None
        if want_bytes:
            with open(path, 'rb') as f:
                blob2 = f.read()
    finally:
        cleanup(path)
    out = {'ok': status == 'ok', 'before': h, 'hash': h2,
           'npoints': npoints, 'labels': labels, 'err': err,
           'bytes': blob2}
    _EDGE[key] = {k: v for k, v in out.items() if k != 'bytes'}
    return out


# ------------------------------------------------------------- run_case

def run_case(case):
    kind = case['kind']
    if kind == 'edge':
        return case_edge(case)
    if kind == 'order':
        return case_order(case)
    if kind == 'fault':
        return case_fault(case)
    raise InternalError('unknown kind %r' % kind)


def case_edge(case):
    res = run_edge(case['history'], case['step'])
    viol = []
    if not res['ok'] and res['hash'] != res['before']:
        viol.append((
            'failed-step-changed-state:' + case['step'],
            'step %s failed on its own (%s) after history %r but the '
            'dataset changed' % (case['step'], res['err'], case['history'])))
    return Result(viol=viol, nontrivial=res['ok'], outcome=res['hash'],
                  states=1, transitions=1,
                  obs={'ok': res['ok'], 'points': res['npoints'],
                       'state': res['hash'], 'error': res['err']})


def case_order(case):
    ha, _ = state_of(case['history_a'])
    hb, _ = state_of(case['history_b'])
    viol = []
    if ha != hb:
        viol.append((
            'order-dependent',
            'the same set of successful steps gives different datasets: '
            '%r -> %s, %r -> %s (differing tables: %s)'
            % (case['history_a'], ha, case['history_b'], hb,
               diff_tables(case['history_a'], case['history_b']))))
    return Result(viol=viol, nontrivial=True, outcome=ha + hb, states=2,
                  transitions=len(case['history_a']) + len(case['history_b']),
                  obs={'a': ha, 'b': hb})


def diff_tables(hist_a, hist_b):
    out = []
    dumps = []
    for hist in (hist_a, hist_b):
        _, blob = state_of(hist)
        path = materialise(blob)
        try:
            dumps.append(dump_hash(path)[1])
        finally:
            cleanup(path)
    for name in sorted(set(dumps[0]) | set(dumps[1])):
        if dumps[0].get(name) != dumps[1].get(name):
            out.append(name)
    return out


def case_fault(case):
    history = tuple(case['history'])
    step = case['step']
    k = case['k']
    mode = case['mode']
    edge = run_edge(history, step)
    before = edge['before']
    success = edge['hash'] if edge['ok'] else before
    _, blob = state_of(history)
    path = materialise(blob)
    viol = []
    transitions = 1
    label = None
    if edge['labels'] and k <= len(edge['labels']):
        label = edge['labels'][k - 1]
    try:
        status, _, _, err = faults.attempt(argv_of(step, path), at=k,
                                           mode=mode)
        after, d_after = dump_hash(path)
        if status in ('ok', 'child-ok') and edge['ok']:
            # the fault point was not reached?  the fault-free run counted
            # at least k points, so the same run must reach it
            raise InternalError(
                'fault point %d of %s not reached on replay (history %r)'
                % (k, step, history))
        if after not in (before, success):
            viol.append((
                'partial-state:%s:%s' % (step, mode),
                'step %s with %s at point %d (%s) after history %r left the '
                'dataset in a state that is neither the previous content '
                '(%s) nor the complete result (%s): %s; tables differing '
                'from before: %s'
                % (step, 'an injected error' if mode == 'raise' else
                   'the process killed', k, label, list(history), before,
                   success, after, tables_differing(blob, d_after))))
        elif after == before:
            # (ii) the step can be run again and gives the success state
            status2, _, _, err2 = faults.attempt(argv_of(step, path))
            transitions += 1
            again, _ = dump_hash(path)
            if again != success or (status2 == 'ok') != edge['ok']:
                viol.append((
                    'rerun-differs:%s:%s' % (step, mode),
                    'after a failed attempt of %s (%s at point %d, %s) the '
                    're-run gave state %s (status %s, %s), a first run gives '
                    '%s' % (step, mode, k, label, again, status2, err2,
                            success)))
    finally:
        cleanup(path)
    counters = {'fault_executions_' + mode: 1}
    if after == success and edge['ok'] and success != before:
        counters['faults_after_commit_point'] = 1
    return Result(viol=viol, nontrivial=edge['ok'], outcome=after,
                  states=0 if after in (before, success) else 1,
                  transitions=transitions, counters=counters,
                  obs={'status': status, 'point': label,
                       'state_after': after, 'before': before,
                       'success': success})


def tables_differing(blob_before, d_after):
    path = materialise(blob_before)
    try:
        d_before = dump_hash(path)[1]
    finally:
        cleanup(path)
    return [name for name in sorted(set(d_before) | set(d_after))
            if d_before.get(name) != d_after.get(name)]


# --------------------------------------------------------------- explore

DEPENDS_ON = {'rise': ('classify', 'grid'), 'recession': ('classify', 'grid')}


def kind_of(step):
    return step.split('-')[0]


def independent(a, b):
    """The independence relation of the property: classification, grid and
    curvature settings are mutually independent; rise and recession are
    independent of each other and of the curvature; rise / recession DEPEND
    on classification and grid; two steps of the same kind are dependent
    (today a second one always fails; if a refactoring gave them replace
    semantics, last-writer-wins would be legitimate)."""
    ka, kb = kind_of(a), kind_of(b)
    if ka == kb or a.startswith('@') or b.startswith('@'):
        return False
    if kb in DEPENDS_ON.get(ka, ()) or ka in DEPENDS_ON.get(kb, ()):
        return False
    return True


def order_free_key(history):
    """Lexicographic normal form of the history in the trace monoid of the
    independence relation: two histories have the same key iff one can be
    obtained from the other by swapping adjacent independent steps.
    Histories with the same key must reach the same dataset."""
    rest = list(history)
    out = []
    while rest:
        best = None
        for i, x in enumerate(rest):
            if all(independent(x, y) for y in rest[:i]):
                if best is None or x < rest[best]:
                    best = i
        out.append(rest.pop(best))
    return tuple(out)


def _bfs_job(job):
    history, step = job
    res = run_edge(history, step, want_bytes=True)
    return history, step, res


def explore(tier, seed, jobs, t0, deadline_s, agg, per_space, capped):
    alphabet = ALPHABET[tier]
    ctx = multiprocessing.get_context('fork')
    states = {}                  # hash -> canonical (first, BFS) history
    by_set = {}
    frontier = []
    for which in DATASETS[tier]:
        root = ('@%d' % which,)
        h0, _blob0 = initial_state(which)
        states[h0] = root
        by_set[order_free_key(root)] = (root, h0)
        frontier.append(root)
    edges = []                   # (history, step, ok, npoints, labels)
    depth = 0
    ts = time.time()
    n_edges = 0
    engine._STATE['spaces'] = []
    if True:
        while frontier:
            if depth >= MAX_DEPTH or time.time() - t0 > deadline_s:
                capped.append('success-graph BFS beyond depth %d' % depth)
                break
            depth += 1
            job_list = [(hist, step) for hist in frontier
                        for step in alphabet]
            # a fresh pool per level: the workers inherit the snapshots of
            # all states found so far
            with ctx.Pool(jobs) as pool:
                results = pool.map(_bfs_job, job_list)
            results.sort(key=lambda r: (r[0], r[1]))
            nxt = []
            for history, step, res in results:
                n_edges += 1
                _EDGE[(history, step)] = {
                    k: v for k, v in res.items() if k != 'bytes'}
                case = {'kind': 'edge', 'history': list(history),
                        'step': step}
                r = case_edge(case)
                part = engine.new_agg()
                part['n'] = 1
                part['states'] = 0
                part['transitions'] = 1
                part['nontrivial'] = 1 if res['ok'] else 0
                part['outcomes'].add(res['hash'].encode())
                if r.viol:
                    part['nviol'] = 1
                    for sig, msg in r.viol:
                        part['viol'][sig] = (n_edges, case, msg)
                edges.append((history, step, res['ok'], res['npoints'],
                              res['labels']))
                if res['ok'] and step in TERMINAL:
                    part['counters']['terminal_steps_not_expanded'] += 1
                elif res['ok']:
                    new_hist = history + (step,)
                    _MEMO[new_hist] = (res['hash'], res['bytes'])
                    key = order_free_key(new_hist)
                    if key in by_set:
                        other, other_hash = by_set[key]
                        if other_hash != res['hash']:
                            ocase = {'kind': 'order',
                                     'history_a': list(other),
                                     'history_b': list(new_hist)}
                            ro = case_order(ocase)
                            part['nviol'] = 1
                            for sig, msg in ro.viol:
                                part['viol'][sig] = (n_edges, ocase, msg)
                        part['counters']['histories_merged_by_step_set'] += 1
                    else:
                        by_set[key] = (new_hist, res['hash'])
                    if res['hash'] not in states:
                        states[res['hash']] = new_hist
                        nxt.append(new_hist)
                    if len(set(new_hist)) != len(new_hist):
                        part['counters'][
                            'histories_where_a_step_succeeded_twice'] += 1
                else:
                    part['counters']['steps_failing_on_their_own'] += 1
                engine.merge_part(agg, part, 0)
            frontier = nxt
    agg['states'] += len(states)
    sets_with_several = sum(1 for _ in by_set)
    per_space.append({
        'name': 'success-graph BFS', 'size': n_edges, 'explored': n_edges,
        'states': len(states), 'depth': depth,
        'distinct_step_sets': sets_with_several,
        'note': 'every step from every reachable state; fixpoint reached',
        'wall_s': round(time.time() - ts, 2)})
    agg['samples'].append({
        'space': 'success-graph BFS', 'index': 0,
        'case': {'kind': 'edge', 'history': list(edges[-1][0]),
                 'step': edges[-1][1]},
        'observed': {'ok': edges[-1][2], 'points': edges[-1][3]},
        'nontrivial': bool(edges[-1][2])})

    # ---- phase 2: one Space per mode over all (edge, point) pairs
    index = []
    for history, step, ok, npoints, labels in edges:
        for k in range(1, (npoints or 0) + 1):
            index.append((history, step, k))
    spaces = []
    for mode in ('raise', 'kill'):
        def decode(i, mode=mode):
            history, step, k = index[i]
            return {'kind': 'fault', 'history': list(history), 'step': step,
                    'k': k, 'mode': mode}
        spaces.append(Space('fault points/%s' % mode, len(index), decode,
                            'every fault point of every (state, step) edge'))
    engine._STATE['spaces'] = spaces
    with ctx.Pool(jobs) as pool:
        engine.enumerate_spaces(pool, spaces, seed, jobs, t0, deadline_s,
                                agg, per_space, capped, base_index=1)
    labels = sorted({re.sub(r' row \d+', ' row', l.split(':')[0])
                     for e in edges for l in (e[4] or [])})
    agg['counters']['fault_point_kinds:' + ','.join(labels)] = 1
    agg['counters']['max_fault_points_per_step'] = max(
        (e[3] or 0) for e in edges)
    return n_edges + 2 * len(index)


def spaces(tier):
    # only used by the framework self-test
    return [Space('C20 explores through explore()', 1,
                  lambda i: {'kind': 'edge', 'history': ['@0'], 'step':
                             ALPHABET[tier][0]})]
