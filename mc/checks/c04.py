"""C04 - interstorm intervals and per-step flags."""

import numpy as np

import spowtd.classify as classify_mod

from mc.engine import Space
from mc.lib import classify_spaces as cs
from mc.lib import records

ID = 'C04'
LEVEL = 'model_checking'
WANT = ('C04',)
# fewer non-trivial cases than this share of all cases means that the
# exploration has become vacuous (reported as INTERNAL-ERROR, never as a pass)
MIN_NONTRIVIAL_FRACTION = 0.1
RULE = (
    'Function level: every pair of boolean vectors (is_jump, is_raining) up '
    'to the stated length through get_mystery_jump_mask, every boolean '
    'vector (including empty and all-True) through get_true_interval_masks, '
    'against a three-line reference automaton / run finder.  DB level: every '
    'record over rain in {0, =s, >s} x increment in {fall, =j*dt, >j*dt} x '
    'gap masks, loaded and classified by the real code; grid_time_flags must '
    'equal the reference row for row and the set of interstorm zeta_interval '
    'rows must EQUAL the set of maximal clean rain-free runs of >=2 samples '
    '(both inclusions).  Time steps of one second, one day and two days; '
    'long records: one storm/rise motif at every position of a quiet '
    '1100-step record and within 5 steps of every multiple of 500 or 512 of '
    'an 8300-step record (thorough: every position of it), the long '
    'recessions before and after it being the interstorm intervals.  '
    'States = automaton steps (samples).  Non-trivial = '
    'an interstorm interval is recorded / a mask has a True run.')
ASSUMPTIONS = [
    'reference automaton written from the property statement; increments '
    'compared with j*dt/3600 in rational arithmetic on the stored doubles',
]


def BOUND(tier):
    return {
        'quick': 'mask pairs len<=8, vectors len<=14; ternary records n<=4 '
                 '(<=2 gaps) on 4 combos, n=5 (<=1 gap) on 2 combos, n=3 with '
                 'thresholds 2^-30 and 2^30; CLI n<=3; steps 1 s / 1 d / '
                 '2 d n=3; motif positions in records of 1100 and 8300 steps',
        'thorough': 'mask pairs len<=10, vectors len<=18; ternary n<=5 (all '
                    'gap masks) on 5 combos, n=6 (<=1 gap), n=7 (no gap); '
                    'CLI n<=4; steps 1 s / 1 d / 2 d n=4; every motif '
                    'position in a record of 8300 steps',
    }[tier]


def decoy():
    from mc.lib import decoy as decoy_mod
    decoy_mod.classification().close()


def selftest():
    cs.selftest()


def mystery_space(n):
    def decode(i):
        return {'kind': 'mystery', 'n': n, 'jump': i % (2 ** n),
                'rain': i // (2 ** n)}
    return Space('get_mystery_jump_mask/len=%d' % n, 4 ** n, decode,
                 decoy_every=8192)


def runs_space(n):
    def decode(i):
        return {'kind': 'runs', 'n': n, 'bits': i}
    return Space('get_true_interval_masks/len=%d' % n, 2 ** n, decode,
                 decoy_every=8192)


def spaces(tier):
    out = []
    from mc.lib import api
    m_ok = api.available(classify_mod, 'get_mystery_jump_mask',
                         ('is_jump', 'is_raining'))
    r_ok = api.available(classify_mod, 'get_true_interval_masks',
                         ('boolean_vector',))
    if tier == 'quick':
        out += [mystery_space(n) for n in range(0, 9) if m_ok]
        out += [runs_space(n) for n in range(0, 15) if r_ok]
        for n in (2, 3, 4):
            for combo in cs.COMBOS[:4]:
                out.append(cs.db_space(n, combo, 2))
        out.append(cs.db_space(5, cs.COMBOS[2], 0))
        out.append(cs.db_space(5, cs.COMBOS[3], 1))
        for combo in cs.EXTREME:
            out.append(cs.db_space(3, combo, 1))
        for combo in cs.COMBOS[2:4]:
            out.append(cs.db_space(4, combo, 0, base_level=-171.6))
        for n in (2, 3):
            out.append(cs.db_space(n, cs.COMBOS[n % 2], 1, cli=True))
        out.append(cs.sequence_space(3))
        out.append(cs.sequence_space(3, dataset=3))
    else:
        out.append(cs.db_space(6, cs.COMBOS[3], 0))
        for combo in cs.EXTREME:
            out.append(cs.db_space(5, combo, 1))
        out += [mystery_space(n) for n in range(0, 11) if m_ok]
        out += [runs_space(n) for n in range(0, 19) if r_ok]
        for n in (2, 3, 4, 5):
            for combo in cs.COMBOS:
                out.append(cs.db_space(n, combo, 3))
        out.append(cs.db_space(6, cs.COMBOS[2], 1))
        out.append(cs.db_space(7, cs.COMBOS[3], 0))
        for n in (2, 3, 4):
            out.append(cs.db_space(n, cs.COMBOS[n % 2], 2, cli=True))
        out.append(cs.sequence_space(4))
        out.append(cs.sequence_space(4, dataset=3))
    for combo in cs.LONGSTEP:
        out.append(cs.db_space(3 if tier == 'quick' else 4, combo, 1))
    out.append(cs.db_space(3 if tier == 'quick' else 4, cs.COMBOS[1], 1,
                           int_thresholds=True))
    for k, t0 in enumerate(cs.FAR_T0):
        out.append(cs.db_space(3 if tier == 'quick' else 4, cs.COMBOS[k], 1,
                               t0=t0))
    if tier == 'quick':
        out.append(cs.long_space(1100, cs.COMBOS[2]))
        out.append(cs.long_space(8300, cs.COMBOS[2], around=(500, 512)))
    else:
        out.append(cs.long_space(8300, cs.COMBOS[2]))
    return out


def run_mystery(case):
    n = case['n']
    jump = [(case['jump'] >> k) & 1 for k in range(n)]
    rain = [(case['rain'] >> k) & 1 for k in range(n)]
    viol = []
    try:
        got = classify_mod.get_mystery_jump_mask(
            np.array(jump, bool), np.array(rain, bool))
        got = [int(b) for b in got]
    except Exception as exc:  # pylint: disable=broad-except
        return cs.to_result([('crash:' + cs.exc_site(exc), repr(exc))],
                            {'nontrivial': True, 'outcome': 'exc'})
    want = []
    unexplained = True
    for k in range(n):
        if rain[k]:
            unexplained = False
        elif jump[k]:
            unexplained = True
        want.append(int(unexplained))
    if got != want:
        viol.append(('mystery-mask', 'jump=%r rain=%r: got %r expected %r'
                     % (jump, rain, got, want)))
    return cs.to_result(viol, {
        'nontrivial': any(rain) and any(jump), 'outcome': repr(got),
        'states': n + 1, 'transitions': max(n, 1),
        'obs': {'mask': got}})


def run_runs(case):
    n = case['n']
    bits = [(case['bits'] >> k) & 1 for k in range(n)]
    viol = []
    try:
        masks = [list(map(int, m)) for m in
                 classify_mod.get_true_interval_masks(np.array(bits, bool))]
    except Exception as exc:  # pylint: disable=broad-except
        return cs.to_result([('crash:' + cs.exc_site(exc), repr(exc))],
                            {'nontrivial': True, 'outcome': 'exc'})
    want = [[1 if a <= k < b else 0 for k in range(n)]
            for a, b in records.runs(bits)]
    if masks != want:
        viol.append(('run-masks', 'bits=%r: got %r expected %r'
                     % (bits, masks, want)))
    return cs.to_result(viol, {
        'nontrivial': bool(want), 'outcome': repr(masks),
        'states': n + 1, 'transitions': max(n, 1),
        'obs': {'runs': records.runs(bits)}})


def run_case(case):
    if case['kind'] == 'mystery':
        return run_mystery(case)
    if case['kind'] == 'runs':
        return run_runs(case)
    viol, info = cs.run_case_for(case, WANT)
    if case['kind'] == 'sequence':
        return cs.to_result(viol['C04'], info)
    info['nontrivial'] = bool(
        info.get('counters', {}).get('records_with_interstorm'))
    return cs.to_result(viol['C04'], info)
