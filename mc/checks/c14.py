"""C14 - spline specific yield interpolates its knots and integrates
consistently."""

import itertools
import math

import spowtd.specific_yield as sy_mod

from mc.engine import Space, Result
from mc.lib import hydraulics
from mc.lib.classify_spaces import exc_site

ID = 'C14'
LEVEL = 'exploration'
RULE = (
    'Finite lattice: every subset of 4..7 knots of a 7-point level menu '
    '(thorough: 4..8 knots of a 9-point menu) x 5 value patterns (rising, flat, falling, zig-zag, step with overshoot) '
    'x integration limits drawn from the position classes {far below, just '
    'below, first knot, inside each segment, each knot, last knot, just '
    'above, far above, exactly 0}: all ordered pairs and all ordered triples, through '
    'the real SplineSpecificYield.  Every one of the 3 x 3 branch '
    'combinations of Spline.integrate (each limit below / inside / above '
    'the knot range) occurs for every knot set.  Oracle: value at each knot, '
    'constant outside, I(a,b) = -I(b,a), I(a,b) + I(b,c) = I(a,c), and '
    'I(a,b) = two-point Gauss-Legendre per inter-knot piece applied to the '
    'callable itself (exact for piecewise cubics).  Non-trivial = limits '
    'in two different position classes.')
ASSUMPTIONS = [
    'nothing is claimed between the representative limits of each class; '
    'the integrand is piecewise cubic, so the quadrature oracle is exact up '
    'to rounding (tolerance 1e-10 x (|b-a|+1) x max|Sy|, the maximum taken '
    'over the knots and 7 points inside every segment)',
]
LEVELS = [-291.7, -183.1, -15.74, 10.65, 38.78, 168.3, 400.0]
LEVELS_THOROUGH = [-1291.725, -291.7, -183.1, -15.74, 10.65, 12.0, 38.78,
                   168.3, 400.0]
PATTERNS = {
    'rising': lambda i, n: 0.1 + 0.8 * i / (n - 1),
    'flat': lambda i, n: 0.25,
    'falling': lambda i, n: 0.9 - 0.7 * i / (n - 1),
    'zigzag': lambda i, n: 0.2 + 0.5 * (i % 2) + 0.03 * i,
    # a step: the interpolating cubic rings below 0 and above 1 although
    # every knot value is a valid specific yield
    'step': lambda i, n: 0.02 if i < n // 2 + 1 else 0.98,
}
_SETS = {}


def decoy():
    from mc.lib import decoy as decoy_mod
    decoy_mod.functions()


def BOUND(tier):
    return ('%s knot subsets x 5 value patterns x all ordered pairs and '
            'triples of 2K+3 limit positions'
            % ('4..7-element (of 7 levels)' if tier == 'quick'
               else '4..8-element (of 9 levels)'))


def knot_sets(tier):
    if tier not in _SETS:
        menu = LEVELS if tier == 'quick' else LEVELS_THOROUGH
        sizes = (4, 5, 6, 7) if tier == 'quick' else (4, 5, 6, 7, 8)
        _SETS[tier] = [tuple(menu[i] for i in c) for k in sizes
                       for c in itertools.combinations(range(len(menu)), k)]
    return _SETS[tier]


def positions(knots):
    lo, hi = knots[0], knots[-1]
    out = [lo - 1000.0, lo - 0.5, lo]
    for a, b in zip(knots, knots[1:]):
        out.append(a + 0.375 * (b - a))
        if b != hi:
            out.append(b)
    out += [hi, hi + 0.5, hi + 1000.0]
    # exactly zero (the peat surface) is a limit like any other
    out += [0.0, -0.0]
    # close to an end knot (a few 1e-6 of its value) but not on it
    out += [lo * (1 + 3e-6), lo * (1 - 3e-6), hi * (1 + 3e-6),
            hi * (1 - 3e-6)]
    return out


def spaces(tier):
    sets = knot_sets(tier)
    index = []
    for si, subset in enumerate(sets):
        npos = 2 * len(subset) + 9
        for pattern in PATTERNS:
            for a in range(npos):
                index.append((si, pattern, a))

    def decode(i):
        si, pattern, a = index[i]
        return {'knots': list(sets[si]), 'pattern': pattern,
                'a': a}
    return [Space('SplineSpecificYield/knot subsets x patterns x first limit',
                  len(index), decode,
                  'each case loops over all (b, c) limit pairs')]


def run_case(case):
    knots = case['knots']
    n = len(knots)
    values = [PATTERNS[case['pattern']](i, n) for i in range(n)]
    viol = []
    try:
        # decoy built first: no state may leak between instances
        sy_mod.create_specific_yield_function(
            {'type': 'spline', 'zeta_knots_mm': [k - 7.0 for k in knots],
             'sy_knots': list(values)[::-1]}).integrate(knots[0], knots[-1])
        sy = sy_mod.create_specific_yield_function(
            {'type': 'spline', 'zeta_knots_mm': list(knots),
             'sy_knots': list(values)})
    except Exception as exc:  # pylint: disable=broad-except
        return Result(viol=[('crash:' + exc_site(exc), repr(exc)[:200])],
                      nontrivial=True, outcome='exc')
    pos = positions(knots)
    a = pos[case['a']]
    scale = max(abs(v) for v in values)
    try:
        # rounding is relative to the amplitude the interpolant reaches
        # between its knots (a cubic through close and distant knots rings
        # far above its knot values), not to the knot values alone
        for p, q in zip(knots, knots[1:]):
            for k in range(1, 8):
                scale = max(scale, abs(float(sy(p + (q - p) * k / 8.0))))
    except Exception as exc:  # pylint: disable=broad-except
        return Result(viol=[('crash:' + exc_site(exc), repr(exc)[:200])],
                      nontrivial=True, outcome='exc')
    try:
        if case['a'] == 1 and len(knots) <= 5:
            # the tabulating command, once per small (set, pattern)
            from mc.lib import dumps
            pars = {'specific_yield': {'type': 'spline',
                                       'zeta_knots_mm': list(knots),
                                       'sy_knots': list(values)},
                    'transmissivity': {'type': 'peatclsm', 'Ksmacz0': 7.3,
                                       'alpha': 3, 'zeta_max_cm': 1.0}}
            lo_cm, hi_cm = (knots[0] - 40.0) / 10, (knots[-1] + 40.0) / 10
            status, exc, rows, _ = dumps.run_dump('specific-yield', pars,
                                                  lo_cm, hi_cm, 8)
            if status != 0:
                viol.append(('dump-failed', repr(exc)))
            else:
                import numpy as np
                for (level_cm, value), wl_cm in zip(rows, np.linspace(
                        lo_cm, hi_cm, 8)):
                    if not abs(level_cm - wl_cm) <= 1e-9 * (abs(wl_cm) + 1) \
                            or not abs(value - float(sy(wl_cm * 10.0))) \
                            <= 1e-12:
                        viol.append(('dump-row',
                                     'specific-yield dump row (%r cm, %r) '
                                     'but Sy(%r mm) = %r'
                                     % (level_cm, value, wl_cm * 10.0,
                                        float(sy(wl_cm * 10.0)))))
                        break
        if case['a'] == 0:
            # knot values and constant extrapolation, once per (set, pattern)
            for k, v in zip(knots, values):
                if not abs(float(sy(k)) - v) <= 1e-12:
                    viol.append(('knot-value', 'Sy(%r) = %r, knot value %r'
                                 % (k, float(sy(k)), v)))
            # arrays in ascending, descending and mixed order must agree
            # with scalar evaluation element by element
            import numpy as np
            for order in (sorted(pos), sorted(pos, reverse=True),
                          pos[1::2] + pos[0::2]):
                arr = [float(v_) for v_ in sy(np.array(order))]
                one = [float(sy(v_)) for v_ in order]
                lst = [float(v_) for v_ in sy(list(order))]
                if any(not abs(a_ - b_) <= 1e-12 for a_, b_ in zip(
                        arr + lst, one + one)):
                    viol.append(('array-and-scalar-disagree',
                                 'levels %r: array %r, scalar %r'
                                 % (order[:5], arr[:5], one[:5])))
                    break
            for x, v in ((knots[0] - 0.5, values[0]),
                         (knots[0] - 1000.0, values[0]),
                         (knots[-1] + 0.5, values[-1]),
                         (knots[-1] + 1000.0, values[-1])):
                if not abs(float(sy(x)) - v) <= 1e-12:
                    viol.append(('not-constant-outside',
                                 'Sy(%r) = %r, end knot value %r'
                                 % (x, float(sy(x)), v)))
        n_eval = 0
        for b in pos:
            iab = sy.integrate(a, b)
            iba = sy.integrate(b, a)
            tol = 1e-10 * (abs(b - a) + 1.0) * scale
            n_eval += 1
            if not abs(iab + iba) <= tol:
                viol.append(('not-antisymmetric',
                             'I(%r,%r) = %r but I(%r,%r) = %r'
                             % (a, b, iab, b, a, iba)))
            ref = hydraulics.piecewise_gl2(sy, a, b, knots)
            if not abs(iab - ref) <= tol:
                viol.append(('integral-is-not-the-area',
                             'I(%r,%r) = %r, area under the same function '
                             '%r' % (a, b, iab, ref)))
            for c in pos:
                ibc = sy.integrate(b, c)
                iac = sy.integrate(a, c)
                tol3 = 1e-10 * (abs(b - a) + abs(c - b) + 1.0) * scale
                n_eval += 1
                if not abs(iab + ibc - iac) <= tol3:
                    viol.append((
                        'not-additive',
                        'I(%r,%r) + I(%r,%r) = %r but I(%r,%r) = %r'
                        % (a, b, b, c, iab + ibc, a, c, iac)))
            if len(viol) > 6:
                break
    except Exception as exc:  # pylint: disable=broad-except
        viol.append(('crash:' + exc_site(exc), repr(exc)[:200]))
        n_eval = 0
    seen = set()
    viol = [v for v in viol if not (v[0] in seen or seen.add(v[0]))]
    return Result(viol=viol, nontrivial=True,
                  outcome='%s/%d' % (case['pattern'], n),
                  counters={'limit_triples_checked': n_eval},
                  obs={'first_limit': a, 'limits': len(pos)})
