"""C03 - storms and rises are exactly maximal above-threshold runs."""

from mc.lib import classify_spaces as cs

ID = 'C03'
LEVEL = 'model_checking'
WANT = ('C03',)
# fewer non-trivial cases than this share of all cases means that the
# exploration has become vacuous (reported as INTERNAL-ERROR, never as a pass)
MIN_NONTRIVIAL_FRACTION = 0.08
RULE = (
    'Every record over rain in {0, =s, >s} x increment in {fall, =j*dt, '
    '>j*dt} x gap masks up to the stated number of samples, on (dt, s, j) '
    'combinations including steps of 20 and 10 minutes and thresholds of '
    '2^-30, 2^30 and exactly 0, is loaded and '
    'classified by the real code (in-memory database and main(argv) on '
    'files); every recorded storm / rise row is compared with the maximal '
    'runs recomputed with rational arithmetic from the loaded tables, and '
    'storm_total_rain_depth with the reference sum.  Time steps of one '
    'second, one day and two days; long records: one motif (a storm and a '
    'rise, two storms under one rise, one storm under two rises) at every '
    'position of a quiet 1100-step record and within 5 steps of every '
    'multiple of 500 or 512 of an 8300-step record (thorough: at every '
    'position of the 8300-step record).  States = samples of '
    'the record (the reference automaton steps once per sample).  '
    'Non-trivial = at least one pair recorded.')
ASSUMPTIONS = [
    'only the direction stated by the property is required: a recorded '
    'storm/rise must be a maximal run; unmatched runs are legitimately absent',
    'values strictly between the alphabet classes are not enumerated; the '
    'class "exactly equal to the threshold" is',
]


def BOUND(tier):
    return {
        'quick': 'ternary records n<=4 (<=2 gaps) on 4 combos, n=5 (no gap) '
                 'on 1 combo, binary n<=7; CLI n<=3; steps 1 s / 1 d / 2 d '
                 'n=3; motif positions in records of 1100 and 8300 steps',
        'thorough': 'ternary n<=5 (all gap masks) on 5 combos, n=6 (<=1 gap) '
                    'on one combo, binary n<=9; CLI n<=4; steps 1 s / 1 d / '
                    '2 d n=4; every motif position in a record of 8300 steps',
    }[tier]


def decoy():
    from mc.lib import decoy as decoy_mod
    decoy_mod.classification().close()


def selftest():
    cs.selftest()


def spaces(tier):
    out = []
    if tier == 'quick':
        for n in (2, 3, 4):
            for combo in cs.COMBOS[:4]:
                out.append(cs.db_space(n, combo, 2))
        out.append(cs.db_space(5, cs.COMBOS[4], 0))
        for n in (5, 6, 7):
            out.append(cs.db_space(n, cs.COMBOS[n % 4], 0, binary=True))
        for n in (2, 3):
            out.append(cs.db_space(n, cs.COMBOS[n % 2], 1, cli=True))
    else:
        for n in (2, 3, 4, 5):
            for combo in cs.COMBOS:
                out.append(cs.db_space(n, combo, 3))
        out.append(cs.db_space(6, cs.COMBOS[2], 1))
        for n in (5, 6, 7, 8, 9):
            out.append(cs.db_space(n, cs.COMBOS[n % 4], 0, binary=True))
        for n in (2, 3, 4):
            out.append(cs.db_space(n, cs.COMBOS[n % 2], 2, cli=True))
    for combo in cs.COMBOS[2:4]:
        out.append(cs.db_space(4, combo, 0, base_level=-171.6))
    for combo in cs.EXTREME + cs.ZERO:
        out.append(cs.db_space(3, combo, 1))
        if tier == 'thorough':
            out.append(cs.db_space(5, combo, 1))
    out.append(cs.db_space(2, cs.ZERO[1], 0, cli=True))
    out.append(cs.db_space(2, cs.ZERO[2], 0, cli=True))
    for combo in cs.ODD:
        out.append(cs.db_space(4, combo, 1))
    for combo in cs.LONGSTEP:
        out.append(cs.db_space(3 if tier == 'quick' else 4, combo, 1))
    out.append(cs.db_space(3 if tier == 'quick' else 4, cs.COMBOS[1], 1,
                           int_thresholds=True))
    for k, t0 in enumerate(cs.FAR_T0):
        out.append(cs.db_space(3 if tier == 'quick' else 4, cs.COMBOS[k], 1,
                               t0=t0))
    if tier == 'quick':
        out.append(cs.long_space(1100, cs.COMBOS[2]))
        out.append(cs.long_space(8300, cs.COMBOS[2], around=(500, 512)))
    else:
        out.append(cs.long_space(8300, cs.COMBOS[2]))
    out.append(cs.sequence_space(3 if tier == 'quick' else 4))
    out.append(cs.sequence_space(3 if tier == 'quick' else 4, dataset=3))
    return out


def run_case(case):
    viol, info = cs.run_case_for(case, WANT)
    if case['kind'] == 'sequence':
        return cs.to_result(viol[ID], info)
    info['nontrivial'] = bool(info.get('counters', {}).get('records_with_pairs'))
    return cs.to_result(viol['C03'], info)
