"""C15 - spline transmissivity is the minimum plus the integral of
conductivity."""

import itertools
import math

import numpy as np

import spowtd.transmissivity as t_mod

from mc.engine import Space, Result
from mc.lib import hydraulics
from mc.lib.classify_spaces import exc_site

ID = 'C15'
LEVEL = 'exploration'
RULE = (
    'Finite lattice: every subset of 2..7 knots of a '
    '7-point (thorough: 9-point) level menu x 7 conductivity patterns spanning 1e-3..1e4 '
    '(rising, flat, falling, zig-zag, steep, one flat segment below others) and 1e-12..1e-6 '
    'x minimum transmissivity in {1e-3, 7.442, 1e3, integer 7}; levels: far below, just below, first knot, two '
    'points inside each segment, each knot, last knot; each evaluated as a '
    'scalar, inside a list and inside an ndarray (ascending, descending, '
    'rotated and interleaved order) through the real '
    'SplineTransmissivity.  Oracle: closed form T_min + sum over segments '
    'of K_i (exp(s_i dz) - 1) / s_i (K_i dz when flat) to 1e-7 relative; '
    'T_min at and below the first knot; non-decreasing along the sorted '
    'levels; scalar = list element = array element.  Non-trivial = a knot '
    'set with three or more knots (the integral crosses a kink).')
ASSUMPTIONS = [
    'levels above the highest knot are outside the property',
    '1e-7 relative tolerance (scipy quad, default 1.49e-8, integrating '
    'across the kinks of log-linear conductivity)',
]
LEVELS = [-291.7, -183.1, -15.74, 0.0, 38.78, 168.3, 1000.0]
LEVELS_THOROUGH = [-1291.725, -291.7, -183.1, -15.74, 0.0, 10.65, 38.78,
                   168.3, 1000.0]
PATTERNS = {
    'rising': lambda i, n: 10.0 ** (-3 + 7.0 * i / max(n - 1, 1)),
    'flat': lambda i, n: 1.002,
    'falling': lambda i, n: 10.0 ** (4 - 7.0 * i / max(n - 1, 1)),
    'zigzag': lambda i, n: (0.005356, 6577.0)[i % 2] * (1 + 0.1 * i),
    'steep': lambda i, n: (1e-3, 1e-3, 1e4, 1e4, 1e-3, 1e4, 1e-3)[i],
    'flat-then-rising': lambda i, n: (0.5, 0.5, 2.0, 2.0, 40.0, 900.0,
                                      900.0)[i],
    # conductivities far below anything physical for peat, as an optimiser
    # may propose them: 1e-12 .. 1e-6 km/d
    'tiny': lambda i, n: 10.0 ** (-12 + 6.0 * i / max(n - 1, 1)),
}
TMINS = [1e-3, 7.442, 1e3, 7]     # the last one is an int, as YAML gives it
_SETS = {}


def decoy():
    from mc.lib import decoy as decoy_mod
    decoy_mod.functions()


def BOUND(tier):
    return ('%s knot subsets x 7 conductivity patterns x 4 minimum '
            'transmissivities x 3K+1 levels x {scalar, list, ndarray}'
            % ('2..7-element subsets of a 7-level menu:' if tier == 'quick'
               else '2..7-element subsets of a 9-level menu:'))


def spaces(tier):
    menu = LEVELS if tier == 'quick' else LEVELS_THOROUGH
    sets = [c for k in (2, 3, 4, 5, 6, 7)
            for c in itertools.combinations(range(len(menu)), k)]
    index = [(si, p, t) for si in range(len(sets)) for p in PATTERNS
             for t in range(len(TMINS))]

    def decode(i):
        si, p, t = index[i]
        return {'knots': [menu[k] for k in sets[si]], 'pattern': p,
                't_min': TMINS[t]}
    dumped = [(si, p) for si in range(0, len(sets), 5) for p in PATTERNS]

    def decode_dump(i):
        if i == len(dumped):
            return {'knots': [0.0, 1.0], 'pattern': 'rising',
                    't_min': 0.5, 'many_knots': True, 'dump': True}
        si, p = dumped[i]
        return {'knots': [menu[k] for k in sets[si]], 'pattern': p,
                't_min': 7.442, 'dump': True}
    return [Space('SplineTransmissivity/knot subsets x patterns x T_min',
                  len(index), decode, 'each case evaluates all levels'),
            Space('main(plot transmissivity --dump)/every 5th knot subset '
                  'x patterns + one 48-knot set', len(dumped) + 1,
                  decode_dump)]


def dump_violations(knots, K, t_min):
    """`spowtd plot transmissivity PARS MIN MAX -n N --dump F`: every row
    (level in cm, value) must pair the level with the closed-form T"""
    from mc.lib import dumps
    pars = {'specific_yield': {'type': 'spline',
                               'zeta_knots_mm': [0.0, 1.0, 2.0, 3.0],
                               'sy_knots': [0.1, 0.2, 0.3, 0.4]},
            'transmissivity': {'type': 'spline',
                               'zeta_knots_mm': list(knots),
                               'K_knots_km_d': list(K),
                               'minimum_transmissivity_m2_d': t_min}}
    lo_cm, hi_cm = (knots[0] - 30.0) / 10.0, knots[-1] / 10.0
    status, exc, rows, _ = dumps.run_dump('transmissivity', pars, lo_cm,
                                          hi_cm, 7)
    if status != 0:
        return [('dump-failed', 'plot transmissivity --dump failed for '
                 'knots %r: %r' % (knots, exc))]
    out = []
    want_levels = list(np.linspace(lo_cm, hi_cm, 7))
    if len(rows) != 7 or any(not abs(a - b) <= 1e-9 * (abs(b) + 1)
                             for (a, _), b in zip(rows, want_levels)):
        out.append(('dump-levels', 'dumped levels %r, asked for %r'
                    % ([r[0] for r in rows], want_levels)))
    else:
        for level_cm, value in rows:
            want = hydraulics.spline_T(level_cm * 10.0, knots, K, t_min)
            if not abs(value - want) <= 1e-7 * abs(want):
                out.append(('dump-value',
                            'dump pairs level %r cm with T = %r, closed '
                            'form gives %r' % (level_cm, value, want)))
                break
    return out


def orders(n):
    idx = list(range(n))
    inter = []
    lo, hi = 0, n - 1
    while lo <= hi:
        inter.append(lo)
        if hi != lo:
            inter.append(hi)
        lo, hi = lo + 1, hi - 1
    return [('descending', idx[::-1]),
            ('rotated', idx[n // 3:] + idx[:n // 3]),
            ('interleaved', inter)]


def run_case(case):
    knots = case['knots']
    n = len(knots)
    if case.get('many_knots'):
        # 48 knots with steep segments: the integrator works hard here
        knots = [-2400.0 + 50.0 * i for i in range(48)]
        n = 48
        K = [10.0 ** (-6 + 10 * (i % 2) + 0.01 * i) for i in range(48)]
    else:
        K = [PATTERNS[case['pattern']](i, n) for i in range(n)]
    t_min = case['t_min']
    try:
        # a different function built first: state kept between instances
        # (caches, class attributes) must not leak into the one under test
        t_mod.create_transmissivity_function(
            {'type': 'spline', 'zeta_knots_mm': [k + 3.0 for k in knots],
             'K_knots_km_d': [2.0 * k for k in K][::-1],
             'minimum_transmissivity_m2_d': 2.5})(knots[-1])
        T = t_mod.create_transmissivity_function(
            {'type': 'spline', 'zeta_knots_mm': list(knots),
             'K_knots_km_d': list(K),
             'minimum_transmissivity_m2_d': t_min})
    except Exception as exc:  # pylint: disable=broad-except
        return Result(viol=[('crash:' + exc_site(exc), repr(exc)[:200])],
                      nontrivial=True, outcome='exc')
    levels = [knots[0] - 1000.0, knots[0] - 0.5, knots[0]]
    for a, b in zip(knots, knots[1:]):
        levels += [a + 0.25 * (b - a), a + 0.875 * (b - a), b]
    viol = []
    try:
        scalars = [float(T(z)) for z in levels]
        as_list = [float(v) for v in T(list(levels))]
        arg = np.array(levels)
        as_array = [float(v) for v in T(arg)]
        # the same levels in three other orders (descending, rotated,
        # interleaved from both ends): position k of the result belongs to
        # position k of the argument
        for name, order in orders(len(levels)):
            got_o = [float(v) for v in T(np.array([levels[k]
                                                   for k in order]))]
            if got_o != [scalars[k] for k in order]:
                viol.append((
                    'array-order-dependent',
                    'T(levels in %s order) = %r..., the scalar values in '
                    'that order are %r...'
                    % (name, got_o[:4], [scalars[k] for k in order][:4])))
                break
        if list(arg) != list(levels):
            viol.append(('caller-array-overwritten',
                         'after T(array) the caller\'s levels read %r, they '
                         'were %r' % (list(arg)[:4], levels[:4])))
    except Exception as exc:  # pylint: disable=broad-except
        return Result(viol=[('crash:' + exc_site(exc), repr(exc)[:200])],
                      nontrivial=True, outcome='exc')
    if as_list != scalars or as_array != scalars:
        viol.append(('scalar-and-array-disagree',
                     'scalar %r list %r array %r'
                     % (scalars[:4], as_list[:4], as_array[:4])))
    for z, got in zip(levels, scalars):
        want = hydraulics.spline_T(z, knots, K, t_min)
        if z <= knots[0]:
            if got != t_min:
                viol.append(('not-minimum-below-first-knot',
                             'T(%r) = %r, minimum %r' % (z, got, t_min)))
        elif not abs(got - want) <= 1e-7 * abs(want):
            viol.append(('not-minimum-plus-integral',
                         'T(%r) = %r, T_min + integral of conductivity = %r '
                         '(knots %r K %r)' % (z, got, want, knots, K)))
    for (z0, a), (z1, b) in zip(zip(levels, scalars),
                                zip(levels[1:], scalars[1:])):
        if not b >= a - 1e-7 * abs(a):
            viol.append(('decreasing',
                         'T(%r) = %r > T(%r) = %r' % (z0, a, z1, b)))
    if case.get('dump'):
        viol += dump_violations(knots, K, t_min)
    seen = set()
    viol = [v for v in viol if not (v[0] in seen or seen.add(v[0]))]
    return Result(viol=viol, nontrivial=n >= 3,
                  outcome='%s/%d/%g' % (case['pattern'], n, t_min),
                  counters={'levels_evaluated': 3 * len(levels)},
                  obs={'levels': len(levels), 'T_at_last_knot': scalars[-1]})
