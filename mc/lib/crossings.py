"""Reference model for level crossings of a piecewise-linear record.

Exact rational arithmetic on the doubles actually passed in.  The only
concession to floating point is the *ambiguity band*: any implementation must
round the quotient y / step once; when the exact quotient lies above an
integer m but its correctly rounded double equals m, either ceil value is
accepted for that sample - consistently for both segments sharing it.
"""

import itertools
import math
from fractions import Fraction

EPS = 2.0 ** -52


def exact_ceil(q):
    return -((-q.numerator) // q.denominator)


def ceil_options(y, step):
    """Possible values of ceil(y/step) for one sample: [exact] or, inside
    the ambiguity band, [m, m+1]"""
    q = Fraction(y) / Fraction(step)
    c = exact_ceil(q)
    m = c - 1
    # ambiguous iff the correctly rounded quotient equals the integer just
    # below the exact one: the sample is indistinguishable from level m
    # after the single rounding any evaluation of y/step must perform
    if q != c and float(q) == float(m):
        return [m, c]
    # exact quotient a hair BELOW an integer rounds up to it: ceil unchanged
    return [c]


def expected_for(x, y, step, ceils):
    """Expected crossings [(level, exact_x, tol)] given ceil values"""
    out = []
    fstep = Fraction(step)
    for i in range(len(y) - 1):
        a, b = ceils[i], ceils[i + 1]
        lo, hi = (a, b) if b > a else (b, a)
        if lo == hi:
            continue
        x0, x1 = Fraction(x[i]), Fraction(x[i + 1])
        y0, y1 = Fraction(y[i]), Fraction(y[i + 1])
        for n in range(lo, hi):
            if y1 == y0:
                # only possible inside the ambiguity band
                xs = x0
            else:
                xs = x0 + (n * fstep - y0) / (y1 - y0) * (x1 - x0)
            # clamp: inside the band the exact crossing may fall a hair
            # outside the segment
            xs = min(max(xs, min(x0, x1)), max(x0, x1))
            big_y = max(abs(y0), abs(y1)) / fstep
            slope = abs((y1 - y0) / fstep / (x1 - x0)) if y1 != y0 else None
            tol = Fraction(4e-12) + Fraction(8 * EPS) * max(abs(x0), abs(x1))
            if slope:
                tol += 16 * Fraction(EPS) * max(big_y, 1) / slope
                tol = float(min(tol, abs(x1 - x0)))
            else:
                tol = float(abs(x1 - x0))
            out.append((n, xs, tol, i))
    return out


def compare(x, y, step, reported):
    """reported: list of (level, x).  Returns None or a (signature, message).

    Accepts the output iff it equals, as a multiset and within the numerical
    tolerance of the root finder, the crossings obtainable from SOME
    consistent choice of ceil at ambiguous samples."""
    opts = [ceil_options(v, step) for v in y]
    n_amb = sum(1 for o in opts if len(o) > 1)
    rep = sorted((int(n), float(xx)) for n, xx in reported)
    first = None
    for ceils in itertools.product(*opts):
        exp = sorted(expected_for(x, y, step, ceils),
                     key=lambda t: (t[0], t[1]))
        why = match(exp, rep, x)
        if why is None:
            return None, n_amb
        if first is None:
            first = why
    return first, n_amb


def match(exp, rep, x):
    if [e[0] for e in exp] != [r[0] for r in rep]:
        from collections import Counter
        ce = Counter(e[0] for e in exp)
        cr = Counter(r[0] for r in rep)
        extra = sorted((cr - ce).elements())
        missing = sorted((ce - cr).elements())
        if extra and not missing:
            sig = 'level-reported-too-often'
        elif missing and not extra:
            sig = 'level-not-reported'
        else:
            sig = 'levels-differ'
        return (sig, 'levels reported %r, expected %r'
                % ([r[0] for r in rep], [e[0] for e in exp]))
    for (n, xs, tol, i), (_, xr) in zip(exp, rep):
        if abs(Fraction(xr) - xs) > tol:
            return ('crossing-position',
                    'level %d reported at x=%r, interpolation crosses at '
                    '%r (segment %d, tol %.3g)' % (n, xr, float(xs), i, tol))
        lo, hi = min(x[i], x[i + 1]), max(x[i], x[i + 1])
        if not lo <= xr <= hi:
            return ('crossing-outside-bracket',
                    'level %d reported at x=%r outside [%r, %r]'
                    % (n, xr, lo, hi))
    return None


def mean_crossings(x, y, step):
    """{level: exact mean crossing x} using exact ceil (no band)"""
    ceils = [exact_ceil(Fraction(v) / Fraction(step)) for v in y]
    by = {}
    for n, xs, tol, _ in expected_for(x, y, step, ceils):
        by.setdefault(n, []).append((xs, tol))
    return {n: (sum(v for v, _ in vals) / len(vals),
                max(t for _, t in vals))
            for n, vals in by.items()}


def ambiguous(y, step):
    return any(len(ceil_options(v, step)) > 1 for v in y)


def mean_crossing_options(x, y, step):
    """All {level: (exact mean crossing, tol)} mappings obtainable from a
    consistent choice of ceil at ambiguous samples (first = exact choice)"""
    opts = [ceil_options(v, step) for v in y]
    exact = tuple(exact_ceil(Fraction(v) / Fraction(step)) for v in y)
    combos = [exact] + [c for c in itertools.product(*opts) if c != exact]
    out = []
    for ceils in combos:
        by = {}
        for n, xs, tol, _ in expected_for(x, y, step, ceils):
            by.setdefault(n, []).append((xs, tol))
        out.append({n: (sum(v for v, _ in vals) / len(vals),
                        max(t for _, t in vals))
                    for n, vals in by.items()})
    return out
