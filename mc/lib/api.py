"""Guard for the internal functions some spaces call directly.

The command line is spowtd's stable interface; helper functions such as
classify.match_storms are not.  If a refactoring renames one or changes its
parameters, the spaces that call it are skipped (and the run is reported as
not exhaustive, naming what was skipped) instead of turning every call into a
bogus 'crash' violation.  Database- and CLI-level spaces are unaffected."""

import inspect

SKIPPED = []


def available(module, name, params):
    """True if module.name exists and accepts exactly the positional
    parameters `params` (names must match, extra defaulted ones allowed)"""
    fn = getattr(module, name, None)
    if fn is None or not callable(fn):
        note = '%s.%s is missing' % (module.__name__, name)
        if note not in SKIPPED:
            SKIPPED.append(note)
        return False
    try:
        sig = inspect.signature(fn)
    except (TypeError, ValueError):
        return True
    have = [p for p in sig.parameters.values()
            if p.kind in (p.POSITIONAL_ONLY, p.POSITIONAL_OR_KEYWORD)]
    names = [p.name for p in have]
    required = [p.name for p in have if p.default is p.empty]
    if names[:len(params)] != list(params) or len(required) > len(params):
        note = '%s.%s%s no longer takes %r' % (module.__name__, name, sig,
                                               tuple(params))
        if note not in SKIPPED:
            SKIPPED.append(note)
        return False
    return True
