"""A small reader for the three PEST file kinds, written from the PEST
manual (template, instruction and control files), independent of
spowtd/pestfiles.py."""

import re


class PestError(Exception):
    pass


def split_lines(text):
    return text.replace('\r\n', '\n').split('\n')


def parse_pst(text):
    lines = [l for l in split_lines(text)]
    if not lines or lines[0].strip() != 'pcf':
        raise PestError('control file does not start with pcf')
    sections = {}
    name = None
    for line in lines[1:]:
        if line.startswith('*'):
            name = line[1:].strip().lower()
            sections[name] = []
        elif name is not None and line.strip():
            sections[name].append(line)
    ctl = sections.get('control data')
    if not ctl or len(ctl) < 2:
        raise PestError('no control data')
    counts = ctl[1].split()
    if len(counts) < 5:
        raise PestError('control data line 4 has %d numbers' % len(counts))
    out = {
        'npar': int(counts[0]), 'nobs': int(counts[1]),
        'npargp': int(counts[2]), 'nprior': int(counts[3]),
        'nobsgp': int(counts[4]),
        'parameter_groups': [l.split()[0] for l in
                             sections.get('parameter groups', [])],
        'parameters': [l.split() for l in
                       sections.get('parameter data', [])],
        'observation_groups': [l.split()[0] for l in
                               sections.get('observation groups', [])],
        'observations': [l.split() for l in
                         sections.get('observation data', [])],
        'sections': sections,
    }
    return out


def parse_tpl(text):
    lines = split_lines(text)
    head = lines[0].split()
    if len(head) != 2 or head[0] != 'ptf' or len(head[1]) != 1:
        raise PestError('template header %r' % lines[0])
    delim = head[1]
    fields = []   # (line number, start, end, name)
    for ln, line in enumerate(lines[1:], 1):
        pos = 0
        while True:
            a = line.find(delim, pos)
            if a < 0:
                break
            b = line.find(delim, a + 1)
            if b < 0:
                raise PestError('unbalanced delimiter on line %d' % ln)
            fields.append((ln, a, b + 1, line[a + 1:b].strip()))
            pos = b + 1
    return delim, lines, fields


def fill_tpl(text, values):
    """Replace every parameter space by the value's text, as PEST does
    (the number occupies the whole field, delimiters included)"""
    delim, lines, fields = parse_tpl(text)
    out = list(lines)
    for ln, a, b, name in sorted(fields, key=lambda f: (f[0], -f[1])):
        key = [k for k in values if k.lower() == name.lower()]
        if len(key) != 1:
            raise PestError('no value for template parameter %r' % name)
        txt = repr(float(values[key[0]]))
        width = b - a
        if len(txt) > width:
            raise PestError('value %s wider than the parameter space of %s '
                            '(%d)' % (txt, name, width))
        out[ln] = out[ln][:a] + txt.ljust(width) + out[ln][b:]
    return '\n'.join(out[1:])


def parse_ins(text):
    """Instruction file -> list of instruction lines, each a list of items:
    ('marker', text) | ('line', n) | ('fixed'|'semi', name, c1, c2) |
    ('free', name) | ('w',) | ('dum',)"""
    lines = split_lines(text)
    head = lines[0].split()
    if len(head) != 2 or head[0] != 'pif' or len(head[1]) != 1:
        raise PestError('instruction header %r' % lines[0])
    delim = head[1]
    instr = []
    for line in lines[1:]:
        rest = line.strip()
        if not rest:
            continue
        items = []
        first = True
        while rest:
            if rest.startswith(delim):
                end = rest.find(delim, 1)
                if end < 0:
                    raise PestError('unbalanced marker in %r' % line)
                items.append(('marker', rest[1:end], first))
                rest = rest[end + 1:].lstrip()
            else:
                tok, _, rest = rest.partition(' ')
                rest = rest.lstrip()
                m = re.fullmatch(r'[lL](\d+)', tok)
                if m and first:
                    items.append(('line', int(m.group(1))))
                elif tok.lower() == 'w':
                    items.append(('w',))
                elif tok.lower() in ('dum', '!dum!'):
                    items.append(('free', 'dum'))
                else:
                    m = re.fullmatch(r'\[(\w+)\](\d+):(\d+)', tok)
                    m2 = re.fullmatch(r'\((\w+)\)(\d+):(\d+)', tok)
                    m3 = re.fullmatch(r'!(\w+)!', tok)
                    if m:
                        items.append(('fixed', m.group(1), int(m.group(2)),
                                      int(m.group(3))))
                    elif m2:
                        items.append(('semi', m2.group(1), int(m2.group(2)),
                                      int(m2.group(3))))
                    elif m3:
                        items.append(('free', m3.group(1)))
                    else:
                        raise PestError('unsupported instruction %r in %r'
                                        % (tok, line))
            first = False
        instr.append(items)
    return instr


def apply_ins(instr, output_text):
    """Execute the instruction set on a model output file; returns
    [(observation name, text of the field, whole line)] in instruction
    order"""
    lines = split_lines(output_text)
    cur = -1
    col = 0
    out = []
    for items in instr:
        for item in items:
            kind = item[0]
            if kind == 'marker' and item[2]:
                k = cur + 1
                while k < len(lines) and item[1] not in lines[k]:
                    k += 1
                if k >= len(lines):
                    raise PestError('marker %r not found' % item[1])
                cur = k
                col = lines[k].index(item[1]) + len(item[1])
            elif kind == 'marker':
                pos = lines[cur].find(item[1], col)
                if pos < 0:
                    raise PestError('secondary marker %r not found'
                                    % item[1])
                col = pos + len(item[1])
            elif kind == 'line':
                cur += item[1]
                col = 0
                if cur >= len(lines):
                    raise PestError('instructions run past the end of the '
                                    'file')
            elif kind == 'w':
                line = lines[cur]
                while col < len(line) and not line[col].isspace():
                    col += 1
                while col < len(line) and line[col].isspace():
                    col += 1
            elif kind == 'fixed':
                _, name, c1, c2 = item
                out.append((name, lines[cur][c1 - 1:c2], lines[cur]))
                col = c2
            elif kind == 'semi':
                _, name, c1, c2 = item
                line = lines[cur]
                a = c1 - 1
                while a < min(c2, len(line)) and line[a].isspace():
                    a += 1
                start = a
                while start > 0 and not line[start - 1].isspace():
                    start -= 1
                end = a
                while end < len(line) and not line[end].isspace():
                    end += 1
                out.append((name, line[start:end], line))
                col = end
            elif kind == 'free':
                line = lines[cur]
                while col < len(line) and line[col].isspace():
                    col += 1
                end = col
                while end < len(line) and not (line[end].isspace()
                                               or line[end] == ','):
                    end += 1
                if item[1] != 'dum':
                    out.append((item[1], line[col:end], line))
                col = end
    return out
