"""A small reader for the three PEST file kinds, written from the PEST
manual (template, instruction and control files), independent of
spowtd/pestfiles.py."""

import re


class PestError(Exception):
    pass


def split_lines(text):
    return text.replace('\r\n', '\n').split('\n')


def parse_pst(text):
    lines = [l for l in split_lines(text)]
    if not lines or lines[0].strip() != 'pcf':
        raise PestError('control file does not start with pcf')
    sections = {}
    name = None
    for line in lines[1:]:
        if line.startswith('*'):
            name = line[1:].strip().lower()
            sections[name] = []
        elif name is not None and line.strip():
            sections[name].append(line)
    ctl = sections.get('control data')
    if not ctl or len(ctl) < 2:
        raise PestError('no control data')
    counts = ctl[1].split()
    if len(counts) < 5:
        raise PestError('control data line 4 has %d numbers' % len(counts))
    out = {
        'npar': int(counts[0]), 'nobs': int(counts[1]),
        'npargp': int(counts[2]), 'nprior': int(counts[3]),
        'nobsgp': int(counts[4]),
        'parameter_groups': [l.split()[0] for l in
                             sections.get('parameter groups', [])],
        'parameters': [l.split() for l in
                       sections.get('parameter data', [])],
        'observation_groups': [l.split()[0] for l in
                               sections.get('observation groups', [])],
        'observations': [l.split() for l in
                         sections.get('observation data', [])],
        'sections': sections,
    }
    return out


def parse_tpl(text):
    lines = split_lines(text)
    head = lines[0].split()
    if len(head) != 2 or head[0] != 'ptf' or len(head[1]) != 1:
        raise PestError('template header %r' % lines[0])
    delim = head[1]
    fields = []   # (line number, start, end, name)
    for ln, line in enumerate(lines[1:], 1):
        pos = 0
        while True:
            a = line.find(delim, pos)
            if a < 0:
                break
            b = line.find(delim, a + 1)
            if b < 0:
                raise PestError('unbalanced delimiter on line %d' % ln)
            fields.append((ln, a, b + 1, line[a + 1:b].strip()))
            pos = b + 1
    return delim, lines, fields


def fill_tpl(text, values):
    """Replace every parameter space by the value's text, as PEST does
    (the number occupies the whole field, delimiters included)"""
    delim, lines, fields = parse_tpl(text)
    out = list(lines)
    for ln, a, b, name in sorted(fields, key=lambda f: (f[0], -f[1])):
        key = [k for k in values if k.lower() == name.lower()]
        if len(key) != 1:
            raise PestError('no value for template parameter %r' % name)
        txt = repr(float(values[key[0]]))
        width = b - a
        if len(txt) > width:
            raise PestError('value %s wider than the parameter space of %s '
                            '(%d)' % (txt, name, width))
        out[ln] = out[ln][:a] + txt.ljust(width) + out[ln][b:]
    return '\n'.join(out[1:])


def parse_ins(text):
    lines = split_lines(text)
    head = lines[0].split()
    if len(head) != 2 or head[0] != 'pif' or len(head[1]) != 1:
        raise PestError('instruction header %r' % lines[0])
    delim = head[1]
    instr = []
    for line in lines[1:]:
        line = line.strip()
        if not line:
            continue
        if line.startswith(delim):
            if not line.endswith(delim) or len(line) < 3:
                raise PestError('bad primary marker %r' % line)
            instr.append(('marker', line[1:-1]))
            continue
        m = re.fullmatch(r'l(\d+)\s+\[(\w+)\](\d+):(\d+)', line)
        if not m:
            raise PestError('unsupported instruction %r' % line)
        instr.append(('fixed', int(m.group(1)), m.group(2),
                      int(m.group(3)), int(m.group(4))))
    return instr


def apply_ins(instr, output_text):
    """Execute the instruction set on a model output file; returns
    [(observation name, text of the field)] in instruction order"""
    lines = split_lines(output_text)
    cur = -1
    out = []
    for ins in instr:
        if ins[0] == 'marker':
            k = cur + 1
            while k < len(lines) and ins[1] not in lines[k]:
                k += 1
            if k >= len(lines):
                raise PestError('marker %r not found' % ins[1])
            cur = k
        else:
            _, adv, name, c1, c2 = ins
            cur += adv
            if cur >= len(lines):
                raise PestError('instruction for %s runs past the end of '
                                'the file' % name)
            out.append((name, lines[cur][c1 - 1:c2], lines[cur]))
    return out
