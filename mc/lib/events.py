"""Synthetic datasets generated from a planted truth (event words).

Truth: a master recession curve that is piecewise linear on the sampling
lattice (level l_j after j dry steps from the top, three shapes) and a
constant specific yield Sy.  A record is a word of events starting at lattice
index a0:

  ('S', k, up)  storm: k heavy-rain steps lifting the level from l_a towards
                l_(a-up), followed by one light-rain step that completes the
                lift (its increment is below the jump threshold and its rain
                below the storm threshold, so the rise interval is exactly
                the k heavy steps); rain = Sy x level increment
  ('D', d)      dry spell: d rain-free steps along the recession curve

spowtd counts an increment that ends at a rain-free sample as unexplained
(property C04), hence the light step.
"""

import os
import sqlite3
from fractions import Fraction

import spowtd.classify as classify_mod
import spowtd.recession as recession_mod
import spowtd.rise as rise_mod
import spowtd.zeta_grid as zeta_grid_mod

from mc.lib import classify_spaces as cs
from mc.lib import records

EPS_INC = 0.125          # level increment of the light step, mm
THR_INC = 0.1875         # jump threshold x step, mm
TOP = 40.0               # l_0, mm
NLATTICE = 40


def lattice(shape):
    falls = []
    for j in range(NLATTICE):
        if shape == 'uniform':
            falls.append(1.0)
        elif shape == 'convex':      # recession slows down as level falls
            falls.append(max(0.5, 2.0 - 0.125 * j))
        elif shape == 'concave':
            falls.append(min(2.5, 0.5 + 0.125 * j))
        else:
            raise ValueError(shape)
    levels = [TOP]
    for f in falls:
        levels.append(levels[-1] - f)
    return levels


def thresholds(sy, dt):
    dt_h = dt / 3600.
    return (sy * THR_INC / dt_h, THR_INC / dt_h)   # (storm, jump) mm/h


def build(word, shape, sy, dt, a0, et=None, eps_inc=EPS_INC):
    """Returns dict(rain, level, truth pieces) or None if the word leaves
    the lattice"""
    lev = lattice(shape)
    dt_h = dt / 3600.
    a = a0
    rain = []
    level = [lev[a]]
    storms = []       # (first step index, k, initial level, final level)
    dries = []        # (first sample index, lattice index at that sample, d)
    for ev in word:
        if ev[0] == 'D':
            d = ev[1]
            if a + d >= len(lev):
                return None
            dries.append((len(level) - 1, a, d))
            for i in range(1, d + 1):
                rain.append(0.0)
                level.append(lev[a + i])
            a += d
        else:
            _, k, up = ev
            if a - up < 0:
                return None
            total = lev[a - up] - lev[a]
            inc = (total - eps_inc) / k
            if not inc > 2 * THR_INC:
                return None
            z0 = level[-1]
            for i in range(k):
                rain.append(sy * inc / dt_h)
                level.append(z0 + inc * (i + 1))
            storms.append((len(rain) - k, k, z0, level[-1]))
            rain.append(sy * eps_inc / dt_h)
            level.append(lev[a - up])
            a -= up
    n = len(rain)
    level = level[:n]            # samples at instants 0..n-1
    if et is None:
        et = [0.125] * (n + 1)
    elif et == 'ramp':
        et = [0.05 + 0.01 * i for i in range(n + 1)]
    elif et == 'alternating':
        et = [0.05 + 0.1 * (i % 2) for i in range(n + 1)]
    return {'rain': rain, 'level': level, 'et': list(et), 'dt': dt,
            'sy': sy, 'lattice': lev, 'storms': storms, 'dries': dries,
            'thresholds': thresholds(sy, dt)}


def truth_time(lev, z, dt):
    """Elapsed time along the master recession at level z (Fraction)"""
    z = Fraction(z)
    for j in range(len(lev) - 1):
        hi, lo = Fraction(lev[j]), Fraction(lev[j + 1])
        if lo <= z <= hi:
            return (j + (hi - z) / (hi - lo)) * dt
    raise ValueError('level %r outside the lattice' % (z,))


def workflow_db(ds, grid_step, reference=(None, None), t0=None,
                classify=True, curves=('rise', 'recession')):
    """load -> classify -> grid -> rise -> recession on an in-memory DB.

    Returns (connection, errors) where errors maps step -> exception"""
    connection = records.new_loaded(
        ds['rain'], ds['level'], ds['dt'], et=ds['et'],
        t0=records.T0_DEFAULT if t0 is None else t0)
    errors = {}
    s, j = ds['thresholds']
    if classify:
        classify_mod.classify_intervals(connection, s, j)
    zeta_grid_mod.populate_zeta_grid(connection, grid_step)
    connection.commit()
    for name, fn, ref in (
            ('rise', rise_mod.find_rise_offsets, reference[0]),
            ('recession', recession_mod.find_recession_offsets,
             reference[1])):
        if name not in curves:
            continue
        try:
            fn(connection, ref)
        except Exception as exc:  # pylint: disable=broad-except
            connection.rollback()
            errors[name] = exc
    return connection, errors


def workflow_cli(ds, grid_step, db=None, t0=None, tzname='UTC',
                 utc_offset_s=0):
    """The same through user_interface.main on real files.

    Returns (db path, errors)"""
    if db is None:
        db = os.path.join(cs.tmpdir(), 'wf-%d.sqlite3' % os.getpid())
    p, e, z = records.make_texts(
        ds['rain'], ds['level'], ds['dt'],
        records.T0_DEFAULT if t0 is None else t0, ds['et'], utc_offset_s)
    errors = {}
    status, _, _, exc = cs.cli_load(db, p, e, z, tzname)
    if status != 0:
        errors['load'] = exc
        return db, errors
    s, j = ds['thresholds']
    for name, argv in (
            ('classify', ['classify', db, '-s', repr(s), '-j', repr(j)]),
            ('set-zeta-grid', ['set-zeta-grid', db, '-d', repr(grid_step)]),
            ('rise', ['rise', db]),
            ('recession', ['recession', db])):
        status, _, _, exc = cs.run_main(argv)
        if status != 0:
            errors[name] = exc
    return db, errors


def word_space_events(pairs, ks=(1, 2, 3), ups=(2, 3, 5), ds=(2, 3, 4, 6)):
    """All words (S D)^pairs; returns (size, decode)"""
    per = len(ks) * len(ups) * len(ds)
    size = per ** pairs

    def decode(i):
        word = []
        for _ in range(pairs):
            c = i % per
            i //= per
            k = ks[c % len(ks)]
            c //= len(ks)
            up = ups[c % len(ups)]
            c //= len(ups)
            d = ds[c]
            word.append(['S', k, up])
            word.append(['D', d])
        return word
    return size, decode


def curve_tables(connection):
    cur = connection.cursor()
    out = {
        'rising_interval': cur.execute(
            'SELECT start_epoch, rain_depth_offset_mm FROM rising_interval '
            'ORDER BY 1').fetchall(),
        'rising_interval_zeta': cur.execute(
            'SELECT start_epoch, zeta_number, mean_crossing_depth_mm '
            'FROM rising_interval_zeta ORDER BY 1, 2').fetchall(),
        'recession_interval': cur.execute(
            'SELECT start_epoch, time_offset_s FROM recession_interval '
            'ORDER BY 1').fetchall(),
        'recession_interval_zeta': cur.execute(
            'SELECT start_epoch, zeta_number, mean_crossing_time '
            'FROM recession_interval_zeta ORDER BY 1, 2').fetchall(),
        'average_rising_depth': cur.execute(
            'SELECT zeta_mm, mean_crossing_depth_mm FROM '
            'average_rising_depth ORDER BY 1').fetchall(),
        'average_recession_time': cur.execute(
            'SELECT zeta_mm, elapsed_time_s FROM average_recession_time '
            'ORDER BY 1').fetchall(),
        'grid_step': (cur.execute(
            'SELECT grid_interval_mm FROM zeta_grid').fetchone() or [None])[0],
        'discrete_zeta': [r[0] for r in cur.execute(
            'SELECT zeta_number FROM discrete_zeta ORDER BY 1')],
    }
    cur.close()
    return out
