"""`spowtd plot specific-yield|transmissivity ... --dump FILE` through
main(argv): returns (status, exception, [(level_cm, value), ...])"""

import gc
import os

from mc.lib import classify_spaces as cs
from mc.lib import simdata


def run_dump(what, pars, lo_cm, hi_cm, n):
    ypath = simdata.write_yaml(pars, name='dump-pars')
    out = os.path.join(cs.tmpdir(), 'dump-%d.txt' % os.getpid())
    with open(out, 'w') as f:
        f.write('stale, stale\n')
    status, _, _, exc = cs.run_main(
        ['plot', what, ypath, repr(float(lo_cm)), repr(float(hi_cm)),
         '-n', str(n), '--dump', out])
    gc.collect()
    rows = []
    text = ''
    if os.path.exists(out):
        with open(out) as f:
            text = f.read()
        os.unlink(out)
    if status == 0:
        for line in text.strip().split('\n')[1:]:
            a, b = line.split(',')
            rows.append((float(a), float(b)))
    return status, exc, rows, text
