"""Synthetic records, loading helpers and the reference classification model.

The reference model is deliberately boring: lists, dicts, Fractions.  It reads
only the *loaded* tables (time_grid, grid_time, rainfall_intensity,
water_level) and derives what classification must produce, so it is
independent of how load works and of every line of classify.py.
"""

import calendar
import datetime
import io
import sqlite3
from fractions import Fraction

import spowtd.load as load_mod

FMT = '%Y-%m-%d %H:%M:%S'
T0_DEFAULT = calendar.timegm((2020, 1, 1, 0, 0, 0))


def stamp(epoch_utc, utc_offset_s=0):
    """Text of a UTC epoch as wall-clock time at a fixed offset"""
    return (datetime.datetime(1970, 1, 1)
            + datetime.timedelta(seconds=epoch_utc + utc_offset_s)
            ).strftime(FMT)


def csv_text(header, rows):
    # (a value given as text is written as it stands)
    return header + '\n' + ''.join(
        '%s,%s\n' % (t, v if isinstance(v, str) else repr(float(v)))
        for t, v in rows)


def make_texts(rain, level, dt, t0=T0_DEFAULT, et=None, utc_offset_s=0):
    """Three CSV texts for a record on one grid.

    rain[k]   intensity of step k (k = 0..n-1), mm/h
    level[k]  water level at instant k (k = 0..n-1) or None (missing)
    et[k]     ET for instant k = 0..n (needs the closing instant too)
    """
    n = len(rain)
    if et is None:
        et = [0.125] * (n + 1)
    p = csv_text('datetime,p',
                 [(stamp(t0 + k * dt, utc_offset_s), rain[k])
                  for k in range(n)])
    e = csv_text('datetime,e',
                 [(stamp(t0 + k * dt, utc_offset_s), et[k])
                  for k in range(len(et))])
    z = csv_text('datetime,z',
                 [(stamp(t0 + k * dt, utc_offset_s), level[k])
                  for k in range(len(level)) if level[k] is not None])
    return p, e, z


def load_texts(connection, p, e, z, tzname='UTC'):
    load_mod.load_data(connection, io.StringIO(p), io.StringIO(e),
                       io.StringIO(z), tzname)


def new_loaded(rain, level, dt, t0=T0_DEFAULT, et=None, tzname='UTC',
               utc_offset_s=0):
    connection = sqlite3.connect(':memory:')
    p, e, z = make_texts(rain, level, dt, t0, et, utc_offset_s)
    load_texts(connection, p, e, z, tzname)
    return connection


ALL_TABLES = (
    'time_grid', 'grid_time', 'thresholds', 'grid_time_flags',
    'rainfall_intensity', 'evapotranspiration', 'water_level', 'storm',
    'zeta_interval', 'zeta_interval_storm', 'zeta_grid', 'discrete_zeta',
    'rising_interval', 'recession_interval', 'rising_interval_zeta',
    'recession_interval_zeta', 'curvature',
    'rainfall_intensity_staging', 'water_level_staging',
    'evapotranspiration_staging')


def dump(connection, tables=None):
    """Logical dump: {table: sorted rows} for every (or the named) table"""
    cur = connection.cursor()
    names = [r[0] for r in cur.execute(
        "SELECT name FROM sqlite_master WHERE type='table' ORDER BY name")]
    out = {}
    for name in names:
        if tables is not None and name not in tables:
            continue
        rows = cur.execute('SELECT * FROM "%s"' % name).fetchall()
        out[name] = sorted(rows, key=lambda r: tuple(
            (0, x) if isinstance(x, (int, float)) else (1, str(x))
            for x in r))
    cur.close()
    return out


# ------------------------------------------------------------------ model


class Stretch:
    """One gap-free stretch of a loaded dataset"""

    __slots__ = ('label', 'epochs', 'z', 'rain')

    def __init__(self, label):
        self.label = label
        self.epochs = []
        self.z = []       # Fractions of the stored doubles
        self.rain = []    # intensity of the step starting at each sample


def read_loaded(connection):
    """Read the loaded dataset: (dt, [Stretch, ...])"""
    cur = connection.cursor()
    (dt,) = cur.execute('SELECT time_step_s FROM time_grid').fetchone()
    rows = cur.execute("""
      SELECT gt.epoch, gt.data_interval, wl.zeta_mm,
             ri.rainfall_intensity_mm_h
      FROM grid_time AS gt
      JOIN water_level AS wl ON wl.epoch = gt.epoch
      LEFT JOIN rainfall_intensity AS ri ON ri.from_epoch = gt.epoch
      ORDER BY gt.epoch""").fetchall()
    cur.close()
    stretches = {}
    order = []
    for epoch, label, zeta, rain in rows:
        if label is None:
            continue
        if label not in stretches:
            stretches[label] = Stretch(label)
            order.append(label)
        s = stretches[label]
        s.epochs.append(epoch)
        s.z.append(Fraction(zeta))
        s.rain.append(None if rain is None else Fraction(rain))
    return dt, [stretches[label] for label in order]


def runs(bits):
    """Maximal runs of truthy values as half-open index pairs"""
    out = []
    i = 0
    n = len(bits)
    while i < n:
        if bits[i]:
            j = i
            while j < n and bits[j]:
                j += 1
            out.append((i, j))
            i = j
        else:
            i += 1
    return out


class RefClassification:
    """What classification must record, derived from the loaded tables"""

    def __init__(self, dt, stretches, storm_thr, jump_thr):
        self.dt = dt
        self.stretches = stretches
        s_thr = Fraction(storm_thr)
        j_delta = Fraction(jump_thr) * Fraction(dt, 3600)
        self.j_delta = j_delta
        self.storms = {}        # start_epoch -> (thru_epoch, steps, depth)
        self.rises = {}         # start_epoch -> (thru_epoch, steps)
        self.candidates = set()  # (storm_start, rise_start)
        self.flags = {}         # epoch -> (is_jump, is_mystery, is_inter)
        self.interstorms = set()  # (start_epoch, thru_epoch)
        self.stretch_of = {}
        for st in stretches:
            m = len(st.epochs)
            for k in range(1, m):
                if st.epochs[k] - st.epochs[k - 1] != dt:
                    raise ValueError('stretch %r is not contiguous'
                                     % st.label)
            for e in st.epochs:
                self.stretch_of[e] = st.label
            heavy = [r is not None and r > s_thr for r in st.rain]
            inc = [st.z[k + 1] - st.z[k] for k in range(m - 1)]
            jump = [d > j_delta for d in inc]
            storm_runs = runs(heavy)
            rise_runs = runs(jump)
            for (a, b) in storm_runs:
                depth = sum(st.rain[k] * Fraction(dt, 3600)
                            for k in range(a, b))
                self.storms[st.epochs[a]] = (
                    st.epochs[a] + (b - a) * dt, b - a, depth)
            for (p, q) in rise_runs:
                self.rises[st.epochs[p]] = (st.epochs[q], q - p)
            for (a, b) in storm_runs:
                for (p, q) in rise_runs:
                    if max(a, p) < min(b, q):
                        self.candidates.add((st.epochs[a], st.epochs[p]))
            # flags: three-line automaton
            unexplained = True
            inter = []
            for k in range(m):
                raining = st.rain[k] is not None and st.rain[k] > 0
                is_jump = k > 0 and jump[k - 1]
                if raining:
                    unexplained = False
                elif is_jump:
                    unexplained = True
                is_inter = (not raining) and (not unexplained)
                self.flags[st.epochs[k]] = (int(is_jump), int(unexplained),
                                            int(is_inter))
                inter.append(is_inter)
            for (a, b) in runs(inter):
                if b - a >= 2:
                    self.interstorms.add((st.epochs[a], st.epochs[b - 1]))

    # preferences ---------------------------------------------------------
    def storm_key(self, storm, rise):
        """Smaller is better for the storm: |duration difference| in steps"""
        return abs(self.storms[storm][1] - self.rises[rise][1])

    def rise_key(self, storm, rise):
        """Smaller is better for the rise: |start offset|"""
        return abs(rise - storm)

    def blocking_pairs(self, pairs):
        """Blocking pairs of a matching given as [(storm, rise), ...]"""
        of_storm = dict(pairs)
        of_rise = {r: s for s, r in pairs}
        out = []
        for (s, r) in sorted(self.candidates):
            if of_storm.get(s) == r:
                continue
            s_ok = (s not in of_storm
                    or self.storm_key(s, r) < self.storm_key(s, of_storm[s]))
            r_ok = (r not in of_rise
                    or self.rise_key(s, r) < self.rise_key(of_rise[r], r))
            if s_ok and r_ok:
                out.append((s, r))
        return out

    def has_ties(self):
        by_storm = {}
        by_rise = {}
        for (s, r) in self.candidates:
            by_storm.setdefault(s, []).append(self.storm_key(s, r))
            by_rise.setdefault(r, []).append(self.rise_key(s, r))
        return (any(len(v) != len(set(v)) for v in by_storm.values())
                or any(len(v) != len(set(v)) for v in by_rise.values()))

    def storm_optimal(self):
        """The storm-optimal stable matching by textbook deferred acceptance
        run independently here (strict preferences assumed), as a sorted list
        of (storm, rise).  Cross-checked by brute force in the matching
        library's self-test."""
        prefs = {}
        for (s, r) in self.candidates:
            prefs.setdefault(s, []).append(r)
        for s in prefs:
            prefs[s].sort(key=lambda r, s=s: (self.storm_key(s, r), r))
        nxt = {s: 0 for s in prefs}
        holder = {}
        free = sorted(prefs)
        while free:
            s = free.pop()
            if nxt[s] >= len(prefs[s]):
                continue
            r = prefs[s][nxt[s]]
            nxt[s] += 1
            if r not in holder:
                holder[r] = s
            elif self.rise_key(s, r) < self.rise_key(holder[r], r):
                free.append(holder[r])
                holder[r] = s
            else:
                free.append(s)
        return sorted((s, r) for r, s in holder.items())


def read_classification(connection):
    cur = connection.cursor()
    out = {
        'storm': cur.execute(
            'SELECT start_epoch, thru_epoch FROM storm').fetchall(),
        'rise': cur.execute(
            "SELECT start_epoch, thru_epoch FROM zeta_interval "
            "WHERE interval_type = 'storm'").fetchall(),
        'interstorm': cur.execute(
            "SELECT start_epoch, thru_epoch FROM zeta_interval "
            "WHERE interval_type = 'interstorm'").fetchall(),
        'pairs': cur.execute(
            'SELECT storm_start_epoch, interval_start_epoch '
            'FROM zeta_interval_storm').fetchall(),
        'flags': cur.execute(
            'SELECT start_epoch, is_jump, is_mystery_jump, is_interstorm '
            'FROM grid_time_flags').fetchall(),
        'depth': cur.execute(
            'SELECT storm_start_epoch, total_depth_mm '
            'FROM storm_total_rain_depth').fetchall(),
    }
    cur.close()
    return out


def check_classification(ref, got, want=('C01', 'C02', 'C03', 'C04')):
    """Compare recorded classification with the reference.

    Returns {property: [(signature, message), ...]}.
    """
    viol = {p: [] for p in want}
    storms = dict(got['storm'])
    rises = dict(got['rise'])
    pairs = [(s, r) for s, r in got['pairs']]
    if 'C01' in viol:
        ss = [s for s, _ in pairs]
        rr = [r for _, r in pairs]
        if len(set(ss)) != len(ss):
            viol['C01'].append(('storm-paired-twice',
                                'a storm occurs in two pairs: %r' % pairs))
        if len(set(rr)) != len(rr):
            viol['C01'].append(('rise-paired-twice',
                                'a rise occurs in two pairs: %r' % pairs))
        for (s, r) in pairs:
            if s not in storms or r not in rises:
                viol['C01'].append(('pair-dangling',
                                    'pair %r not in storm/rise tables'
                                    % ((s, r),)))
                continue
            if not max(s, r) < min(storms[s], rises[r]):
                viol['C01'].append((
                    'pair-no-overlap',
                    'storm [%d,%d) and rise [%d,%d] share no time step'
                    % (s, storms[s], r, rises[r])))
    if 'C03' in viol:
        for s, thru in storms.items():
            if s not in ref.storms:
                viol['C03'].append((
                    'storm-not-maximal-run',
                    'storm starting at %d is not the start of a maximal '
                    'above-threshold run inside one stretch' % s))
            elif ref.storms[s][0] != thru:
                viol['C03'].append((
                    'storm-thru-wrong',
                    'storm %d: thru %d, maximal run ends at %d'
                    % (s, thru, ref.storms[s][0])))
        for r, thru in rises.items():
            if r not in ref.rises:
                viol['C03'].append((
                    'rise-not-maximal-run',
                    'rise starting at %d is not the start of a maximal run '
                    'of increments above threshold' % r))
            elif ref.rises[r][0] != thru:
                viol['C03'].append((
                    'rise-thru-wrong',
                    'rise %d: thru %d, maximal run ends at %d'
                    % (r, thru, ref.rises[r][0])))
        depth = dict(got['depth'])
        for s in storms:
            if s in ref.storms and ref.storms[s][0] == storms[s]:
                want_d = ref.storms[s][2]
                if s not in depth:
                    viol['C03'].append(('depth-missing',
                                        'no rain depth for storm %d' % s))
                elif abs(Fraction(depth[s]) - want_d) > abs(want_d) * Fraction(
                        1, 10 ** 12):
                    viol['C03'].append((
                        'depth-wrong', 'storm %d: depth %r, expected %s'
                        % (s, depth[s], float(want_d))))
    if 'C02' in viol:
        ok = all(s in ref.storms and r in ref.rises for s, r in pairs)
        if ok:
            for (s, r) in pairs:
                if (s, r) not in ref.candidates:
                    viol['C02'].append((
                        'pair-not-candidate',
                        'pair (%d,%d) is not an overlapping storm and rise'
                        % (s, r)))
            blocking = ref.blocking_pairs(pairs)
            if blocking:
                viol['C02'].append((
                    'blocking-pair',
                    'blocking pair(s) %r for matching %r (candidates %r)'
                    % (blocking, sorted(pairs), sorted(ref.candidates))))
            if not ref.has_ties():
                best = ref.storm_optimal()
                if sorted(pairs) != best:
                    viol['C02'].append((
                        'not-storm-optimal',
                        'matching %r, storm-optimal stable matching %r'
                        % (sorted(pairs), best)))
    if 'C04' in viol:
        flags = {e: (a, b, c) for e, a, b, c in got['flags']}
        if set(flags) != set(ref.flags):
            viol['C04'].append((
                'flags-rows',
                'flag rows at %r, samples at %r'
                % (sorted(set(flags) ^ set(ref.flags))[:6], len(ref.flags))))
        else:
            for e in sorted(flags):
                if tuple(int(x) for x in flags[e]) != ref.flags[e]:
                    which = [n for n, x, y in zip(
                        ('is_jump', 'is_mystery_jump', 'is_interstorm'),
                        flags[e], ref.flags[e]) if int(x) != y]
                    viol['C04'].append((
                        'flag-' + '+'.join(which),
                        'flags at %d are %r, expected %r'
                        % (e, flags[e], ref.flags[e])))
                    break
        inter = set((a, b) for a, b in got['interstorm'])
        if inter - ref.interstorms:
            viol['C04'].append((
                'interstorm-extra',
                'recorded interstorm interval(s) %r are not maximal clean '
                'rain-free runs; expected %r'
                % (sorted(inter - ref.interstorms),
                   sorted(ref.interstorms))))
        if ref.interstorms - inter:
            viol['C04'].append((
                'interstorm-missing',
                'interstorm interval(s) %r not recorded (recorded: %r)'
                % (sorted(ref.interstorms - inter), sorted(inter))))
    return viol
