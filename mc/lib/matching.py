"""Abstract stable-matching instances for classify.find_stable_matching.

An instance: for each storm an ordered list of candidate rises (best first,
strict), for each rise a quality for each of its candidate storms (weak order,
ties allowed).  The reference is brute force over all matchings.
"""

import bisect
import itertools

import spowtd.classify as classify_mod

from mc.engine import Space, InternalError
from mc.lib import choice


def partial_perms(items):
    out = [()]
    for k in range(1, len(items) + 1):
        out += list(itertools.permutations(items, k))
    return out


def weak_orders(d):
    """All weak orders on d items as canonical rank tuples"""
    out = set()
    for ranks in itertools.product(range(d), repeat=d):
        # canonical: used ranks are 0..m-1 without holes
        used = sorted(set(ranks))
        canon = tuple(used.index(r) for r in ranks)
        out.add(canon)
    return sorted(out)


WEAK = {d: weak_orders(d) for d in range(0, 4)}
STRICT = {d: [w for w in WEAK[d] if len(set(w)) == len(w)] for d in WEAK}


class InstanceSpace:
    def __init__(self, n_storms, n_rises, ties):
        self.n_storms = n_storms
        self.n_rises = n_rises
        self.ties = ties
        rises = tuple(range(10, 10 + n_rises))
        options = partial_perms(rises)
        self.configs = []
        self.offsets = []
        total = 0
        table = WEAK if ties else STRICT
        for lists in itertools.product(options, repeat=n_storms):
            # require every storm to have at least one candidate, and every
            # rise to be somebody's candidate (smaller graphs are other spaces)
            if any(not lst for lst in lists):
                continue
            deg = [sum(1 for lst in lists if r in lst) for r in rises]
            if any(d == 0 for d in deg):
                continue
            count = 1
            for d in deg:
                count *= len(table[d])
            self.configs.append((lists, deg))
            self.offsets.append(total)
            total += count
        self.size = total
        self.table = table

    def decode(self, i):
        k = bisect.bisect_right(self.offsets, i) - 1
        lists, deg = self.configs[k]
        rem = i - self.offsets[k]
        ranks = []
        for d in deg:
            opts = self.table[d]
            ranks.append(opts[rem % len(opts)])
            rem //= len(opts)
        prefs = {}
        for ri, r in enumerate(range(10, 10 + self.n_rises)):
            storms = [s for s in range(self.n_storms) if r in lists[s]]
            prefs[str(r)] = {str(s): -ranks[ri][k2]
                             for k2, s in enumerate(storms)}
        return {'kind': 'abs',
                'storms': {str(s): list(lists[s])
                           for s in range(self.n_storms)},
                'rise_quality': prefs}

    def space(self):
        return Space(
            'find_stable_matching/%dx%d/%s/all-schedules' % (
                self.n_storms, self.n_rises,
                'weak rise orders' if self.ties else 'strict'),
            self.size, self.decode,
            'every candidate graph (each storm >=1 candidate, each rise '
            '>=1 storm), every strict storm order, every %s rise order'
            % ('weak' if self.ties else 'strict'), decoy_every=8192)


def all_matchings(storm_lists):
    storms = sorted(storm_lists)

    def rec(k, used):
        if k == len(storms):
            yield ()
            return
        s = storms[k]
        for rest in rec(k + 1, used):
            yield rest
        for r in storm_lists[s]:
            if r in used:
                continue
            for rest in rec(k + 1, used | {r}):
                yield ((s, r),) + rest
    return list(rec(0, frozenset()))


def blocking(storm_lists, quality, matching):
    of_s = dict(matching)
    of_r = {r: s for s, r in matching}
    out = []
    for s, lst in storm_lists.items():
        for r in lst:
            if of_s.get(s) == r:
                continue
            s_ok = s not in of_s or lst.index(r) < lst.index(of_s[s])
            r_ok = r not in of_r or quality[r][s] > quality[r][of_r[r]]
            if s_ok and r_ok:
                out.append((s, r))
    return out


def run_abs(case):
    """Run the real find_stable_matching on every proposer schedule.

    Returns (violations, info)"""
    storm_lists = {int(s): list(v) for s, v in case['storms'].items()}
    quality = {int(r): {int(s): q for s, q in d.items()}
               for r, d in case['rise_quality'].items()}
    strict = all(len(set(d.values())) == len(d) for d in quality.values())

    def run(chooser):
        cands = {s: list(reversed(lst)) for s, lst in storm_lists.items()}
        prefs = {r: dict(d) for r, d in quality.items()}
        classify_mod.VERIF_PROPOSER_CHOOSER = chooser
        try:
            res = classify_mod.find_stable_matching(cands, prefs)
        except Exception as exc:  # pylint: disable=broad-except
            return ('exc', type(exc).__name__, repr(exc)[:200])
        finally:
            classify_mod.VERIF_PROPOSER_CHOOSER = None
        return ('ok', tuple(sorted((s, r) for r, s in res.items())))

    results, nodes, edges = choice.explore(run)
    viol = []
    outcomes = set()
    for sched, out in results:
        if out[0] == 'exc':
            viol.append(('crash:%s@find_stable_matching' % out[1],
                         'raised %s on schedule %r' % (out[2], sched)))
            outcomes.add(out[:2])
            continue
        m = out[1]
        outcomes.add(m)
        ss = [s for s, _ in m]
        rr = [r for _, r in m]
        if len(set(ss)) != len(ss) or len(set(rr)) != len(rr):
            viol.append(('not-one-to-one', 'matching %r' % (m,)))
            continue
        if any(r not in storm_lists[s] for s, r in m):
            viol.append(('pair-not-candidate', 'matching %r' % (m,)))
            continue
        b = blocking(storm_lists, quality, m)
        if b:
            viol.append(('blocking-pair',
                         'schedule %r gives %r with blocking pair(s) %r'
                         % (sched, m, b)))
    n_stable = None
    if strict:
        stable = [m for m in all_matchings(storm_lists)
                  if not blocking(storm_lists, quality, m)]
        n_stable = len(stable)
        if not stable:
            raise InternalError('no stable matching exists?! %r' % case)
        best = {}
        for s, lst in storm_lists.items():
            ranks = [lst.index(dict(m)[s]) for m in stable if s in dict(m)]
            best[s] = lst[min(ranks)] if ranks else None
        optimal = tuple(sorted((s, r) for s, r in best.items()
                               if r is not None))
        if optimal not in [tuple(sorted(m)) for m in stable]:
            raise InternalError('storm-optimal matching not stable %r' % case)
        for m in outcomes:
            if m and m[0] == 'exc':
                continue
            if m != optimal:
                viol.append(('not-storm-optimal',
                             'result %r, storm-optimal stable matching %r'
                             % (m, optimal)))
        if len(outcomes) > 1:
            viol.append(('schedule-dependent',
                         '%d results over %d schedules: %r'
                         % (len(outcomes), len(results), sorted(
                             map(repr, outcomes)))))
    counters = {'schedules': len(results)}
    contention = any(len(d) > 1 for d in quality.values())
    if len(outcomes) > 1:
        counters['instances_with_schedule_dependent_result'] = 1
    if n_stable and n_stable > 1:
        counters['instances_with_several_stable_matchings'] = 1
    if not strict:
        counters['instances_with_ties'] = 1
    seen = set()
    uniq = []
    for v in viol:
        if v[0] not in seen:
            seen.add(v[0])
            uniq.append(v)
    return uniq, {
        'nontrivial': contention, 'outcome': repr(sorted(map(repr, outcomes))),
        'states': nodes, 'transitions': max(edges, 1), 'counters': counters,
        'obs': {'schedules': len(results),
                'results': sorted(map(repr, outcomes))[:4]}}


# ---------------------------------------------------------------- large

def large_space():
    """disambiguate_matching on interval pairs far from the origin: one or
    two storms of ~150 steps against two rises whose durations differ from
    the storm's by a few steps and whose starts lie 0-150 steps away.
    Preferences depend on differences only, whatever their magnitude."""
    storms = [[(0, 152)], [(0, 152), (40, 190)]]
    index = []
    for si in range(len(storms)):
        for s2 in (100, 150):
            for d1 in range(-6, 7):
                for d2 in range(-6, 7):
                    index.append((si, s2, d1, d2))

    def decode(i):
        si, s2, d1, d2 = index[i]
        return {'kind': 'large', 'storms': [list(s) for s in storms[si]],
                'rises': [[0, 152 + d1], [s2, s2 + 152 + d2]]}
    return Space('disambiguate_matching/long storms, rises 100-150 steps '
                 'apart', len(index), decode, decoy_every=4096)


def run_large(case):
    storms = [tuple(s) for s in case['storms']]
    rises = [tuple(r) for r in case['rises']]   # (start, start + steps)
    rain_intervals, jump_intervals = [], []
    for s in storms:
        for r in rises:
            rain_intervals.append(s)
            jump_intervals.append((r[0], r[1] + 1))   # samples, not steps
    try:
        out = classify_mod.disambiguate_matching(list(rain_intervals),
                                                 list(jump_intervals))
    except Exception as exc:  # pylint: disable=broad-except
        return [('crash:%s@disambiguate_matching' % type(exc).__name__,
                 repr(exc)[:200])], {'nontrivial': True, 'outcome': 'exc'}
    pairs = sorted(((int(a[0]), int(a[1])), (int(b[0]), int(b[1]) - 1))
                   for a, b in zip(out[0], out[1]))

    def skey(s, r):
        return abs((s[1] - s[0]) - (r[1] - r[0]))

    def rkey(s, r):
        return abs(r[0] - s[0])
    of_s = dict(pairs)
    of_r = {r: s for s, r in pairs}
    viol = []
    if len(of_s) != len(pairs) or len(of_r) != len(pairs):
        viol.append(('not-one-to-one', repr(pairs)))
    else:
        for s in storms:
            for r in rises:
                if of_s.get(s) == r:
                    continue
                s_ok = s not in of_s or skey(s, r) < skey(s, of_s[s])
                r_ok = r not in of_r or rkey(s, r) < rkey(of_r[r], r)
                if s_ok and r_ok:
                    viol.append((
                        'blocking-pair',
                        'storms %r rises %r: matching %r leaves storm %r '
                        'and rise %r, which both prefer each other'
                        % (storms, rises, pairs, s, r)))
                    break
            if viol:
                break
    return viol, {'nontrivial': True, 'outcome': repr(pairs)}
