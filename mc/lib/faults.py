"""Fault injection for steps run through user_interface.main(argv).

`sqlite3.connect` is wrapped (only while an attempt runs) so that every
connection spowtd opens is a FaultConnection handing out FaultCursors.  Every
statement is a numbered *fault point*:

  before each execute / executescript, before each executemany, after each
  of the first 32 rows an executemany has consumed, after every 97th row
  beyond that and after its last row, before an explicit commit(), before
  the implicit commit of `with connection:` (Connection.__exit__)

At point k the injector either raises sqlite3.OperationalError (mode 'raise')
or ends the process with os._exit (mode 'kill', run in a forked child so the
parent can reopen the file: hot-journal recovery is SQLite's own).
"""

import gc
import os
import sqlite3

from mc.lib import classify_spaces as cs

REAL_CONNECT = sqlite3.connect
STATE = {'n': 0, 'at': None, 'mode': 'raise', 'labels': None,
         'in_exit': False}


def point(label):
    STATE['n'] += 1
    if STATE['labels'] is not None:
        STATE['labels'].append(label)
    if STATE['at'] is not None and STATE['at'] == STATE['n']:
        if STATE['mode'] == 'kill':
            os._exit(77)
        raise sqlite3.OperationalError(
            'injected fault at point %d (%s)' % (STATE['n'], label))


def _short(sql):
    return ' '.join(str(sql).split())[:60]


class FaultCursor(sqlite3.Cursor):
    def execute(self, sql, *args, **kwargs):
        point('execute: ' + _short(sql))
        return super().execute(sql, *args, **kwargs)

    def executescript(self, sql):
        point('executescript')
        return super().executescript(sql)

    def executemany(self, sql, seq):
        point('executemany: ' + _short(sql))

        def rows():
            k = 0
            for row in seq:
                yield row
                k += 1
                if k <= 32 or k % 97 == 0:
                    point('executemany row %d: %s' % (k, _short(sql)))
            if k > 32 and k % 97:
                point('executemany row %d (last): %s' % (k, _short(sql)))
        return super().executemany(sql, rows())


class FaultConnection(sqlite3.Connection):
    def cursor(self, factory=FaultCursor):
        return super().cursor(factory)

    def execute(self, sql, *args, **kwargs):
        point('connection.execute: ' + _short(sql))
        return super().execute(sql, *args, **kwargs)

    def executescript(self, sql):
        point('connection.executescript')
        return super().executescript(sql)

    def executemany(self, sql, seq):
        point('connection.executemany: ' + _short(sql))
        return super().executemany(sql, seq)

    def commit(self):
        if not STATE['in_exit']:
            point('commit()')
        return super().commit()

    def __exit__(self, exc_type, exc, tb):
        if exc_type is None:
            point('implicit commit (with-block exit)')
        STATE['in_exit'] = True
        try:
            return super().__exit__(exc_type, exc, tb)
        finally:
            STATE['in_exit'] = False


_OPEN = []


def _patched_connect(*args, **kwargs):
    kwargs.setdefault('factory', FaultConnection)
    connection = REAL_CONNECT(*args, **kwargs)
    _OPEN.append(connection)
    return connection


def attempt(argv, at=None, mode='raise', want_labels=False):
    """Run main(argv) with a fault at point `at` (None: no fault).

    Returns (status, n_points_passed, labels, error_text)
    status: 'ok' | 'exc' | 'killed' | 'child-ok' | 'child-exc'"""
    STATE.update(n=0, at=at, mode=mode, in_exit=False,
                 labels=[] if want_labels else None)
    sqlite3.connect = _patched_connect
    try:
        if mode == 'kill' and at is not None:
            pid = os.fork()
            if pid == 0:
                code = 0
                try:
                    status, _, _, exc = cs.run_main(argv)
                    code = 0 if status == 0 else 1
                except BaseException:  # pylint: disable=broad-except
                    code = 1
                os._exit(code)
            _, st = os.waitpid(pid, 0)
            code = os.WEXITSTATUS(st) if os.WIFEXITED(st) else -1
            status = {77: 'killed', 0: 'child-ok', 1: 'child-exc'}.get(
                code, 'child-%d' % code)
            return status, None, None, None
        status, _, _, exc = cs.run_main(argv)
        err = None if exc is None else repr(exc)[:200]
        del exc
        return ('ok' if status == 0 else 'exc'), STATE['n'], STATE['labels'], err
    finally:
        sqlite3.connect = REAL_CONNECT
        STATE['at'] = None
        # the command's process ends here: its connections go away with it
        # (an open transaction is rolled back).  Without this a connection
        # kept alive by the traceback of the injected error holds its write
        # lock until the collector runs, and a re-run finds the file locked
        while _OPEN:
            try:
                _OPEN.pop().close()
            except sqlite3.Error:
                pass
        STATE['attempts'] = STATE.get('attempts', 0) + 1
        if STATE['attempts'] % 500 == 0:
            gc.collect()


def selftest():
    """The injector must see explicit and implicit commits exactly once"""
    import tempfile
    d = cs.tmpdir()
    path = os.path.join(d, 'faults-selftest.sqlite3')
    if os.path.exists(path):
        os.unlink(path)
    STATE.update(n=0, at=None, labels=[], in_exit=False)
    sqlite3.connect = _patched_connect
    try:
        with sqlite3.connect(path) as connection:
            cur = connection.cursor()
            cur.execute('CREATE TABLE t (a)')
            cur.executemany('INSERT INTO t VALUES (?)', [(1,), (2,)])
            connection.commit()
            connection.execute('INSERT INTO t VALUES (3)')
    finally:
        sqlite3.connect = REAL_CONNECT
    labels = STATE['labels']
    STATE['labels'] = None
    os.unlink(path)
    want = ['execute', 'executemany', 'executemany row 1',
            'executemany row 2', 'commit()', 'connection.execute',
            'implicit commit']
    got = [l for l in labels]
    ok = (len(got) == 7
          and all(g.startswith(w) for g, w in zip(got, want)))
    if not ok:
        from mc.engine import InternalError
        raise InternalError('fault injector does not see the expected '
                            'points: %r' % (got,))
    return got
