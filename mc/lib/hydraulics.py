"""Independent reference formulas for the hydraulic functions."""

import itertools
import math

import numpy as np

GL2 = (-1.0 / math.sqrt(3.0), 1.0 / math.sqrt(3.0))
# 5-point Gauss-Legendre (exact to degree 9) for smooth non-polynomial pieces
GL5_X = (0.0, -0.5384693101056831, 0.5384693101056831,
         -0.9061798459386640, 0.9061798459386640)
GL5_W = (0.5688888888888889, 0.4786286704993665, 0.4786286704993665,
         0.2369268850561891, 0.2369268850561891)


def piecewise_gl2(f, a, b, breaks):
    """Integral of a piecewise-cubic callable from a to b by two-point
    Gauss-Legendre on every piece between consecutive break points (exact)"""
    if a == b:
        return 0.0
    sign = 1.0
    if a > b:
        a, b, sign = b, a, -1.0
    pts = [a] + [x for x in sorted(breaks) if a < x < b] + [b]
    total = 0.0
    for lo, hi in zip(pts, pts[1:]):
        mid, half = 0.5 * (lo + hi), 0.5 * (hi - lo)
        total += half * sum(float(f(mid + half * x)) for x in GL2)
    return sign * total


def composite_gl5(f, a, b, breaks, panels=64):
    """High-order composite quadrature of a smooth-between-breaks callable"""
    if a == b:
        return 0.0
    sign = 1.0
    if a > b:
        a, b, sign = b, a, -1.0
    pts = [a] + [x for x in sorted(breaks) if a < x < b] + [b]
    total = 0.0
    for lo, hi in zip(pts, pts[1:]):
        w = (hi - lo) / panels
        for k in range(panels):
            l2 = lo + k * w
            mid, half = l2 + 0.5 * w, 0.5 * w
            total += half * sum(wt * float(f(mid + half * x))
                                for x, wt in zip(GL5_X, GL5_W))
    return sign * total


def spline_T(z, knots, K, t_min):
    """Closed form: T_min + integral of log-linear conductivity"""
    if z <= knots[0]:
        return t_min
    total = t_min
    for i in range(len(knots) - 1):
        z0, z1 = knots[i], knots[i + 1]
        if z <= z0:
            break
        zu = min(z, z1)
        s = (math.log(K[i + 1]) - math.log(K[i])) / (z1 - z0)
        if s == 0:
            total += K[i] * (zu - z0)
        else:
            total += K[i] * math.expm1(s * (zu - z0)) / s
    return total


def peatclsm_sy_knots(sd, theta_s, b, psi_s, layers=201):
    """Vectorised re-derivation of the Dettmann-Bechtold discretisation.

    Returns (knot levels in mm, specific yield at the knots)"""
    n = 201
    zl = -1.0 + 0.01 * np.arange(n)
    zu = -0.99 + 0.01 * np.arange(n)
    zl = np.linspace(-1, 1, n)
    zu = np.linspace(-0.99, 1.01, n)
    zm = 0.5 * (zl + zu)
    erf = np.vectorize(math.erf)
    Fs = 0.5 * (1.0 + erf(zm / (sd * math.sqrt(2.0))))
    dz = zu - zl

    def theta(depth):
        # depth = water level - layer mid-point (m); psi_s < 0
        ratio = (depth * 100.0) / (psi_s * 100.0)
        sat = (depth * 100.0) >= (psi_s * 100.0)
        safe = np.where(sat, 1.0, ratio)
        return np.where(sat, theta_s, theta_s * safe ** (-1.0 / b))
    j = slice(0, layers)
    upper = theta(zu[:, None] - zm[None, j])
    lower = theta(zl[:, None] - zm[None, j])
    A = ((1.0 - Fs[None, j]) * (upper - lower) * dz[None, j]).sum(axis=1)
    soil = A / dz
    surface = Fs
    return zm * 1000.0, soil + surface


def peatclsm_T(level_mm, Ksmacz0, alpha, zeta_max_cm):
    return (Ksmacz0 * (zeta_max_cm - level_mm / 10.0) ** (1.0 - alpha)
            / (100.0 * (alpha - 1.0)))


def r_script_sy():
    """Line-by-line port of spowtd/test/peatclsm_hydraulic_functions.R
    (published parameter set; note the inner loop over 200 layers)"""
    theta_s, b, psi_s, sd = 0.88, 7.4, -0.024, 0.162
    zl_ = [-1 + 0.01 * i for i in range(201)]
    zu_ = [-0.99 + 0.01 * i for i in range(201)]
    wl = [(a + c) / 2 for a, c in zip(zl_, zu_)]

    def pnorm(x):
        return 0.5 * (1 + math.erf(x / (sd * math.sqrt(2))))

    def campbell(z_, zlu):
        Fs = pnorm(z_)
        if ((zlu - z_) * 100) >= (psi_s * 100):
            theta = theta_s
        else:
            theta = theta_s * (((zlu - z_) * 100) / (psi_s * 100)) ** (-1 / b)
        return (1 - Fs) * theta
    out = []
    for i in range(201):
        zl, zu = zl_[i], zu_[i]
        A = 0
        for j in range(200):
            zm = 0.5 * (zl_[j] + zu_[j])
            A = A + (zu_[j] - zl_[j]) * (campbell(zm, zu) - campbell(zm, zl))
        out.append(1 / (1 * (zu - zl)) * A + pnorm(0.5 * (zu + zl)))
    return wl, out
