"""Stateless choice-point exploration (CHESS style, all alternatives).

``explore(run)`` calls ``run(chooser)`` repeatedly.  The code under test calls
``chooser(options)`` wherever it could go several ways; the chooser replays a
recorded prefix of choices (an out-of-range choice is a hard error: the
execution diverged from the recorded one) and answers 0 afterwards.  Every
alternative at every point beyond the prefix is then expanded depth-first, so
on return every complete choice sequence has been executed exactly once.
"""

from mc.engine import InternalError


class Chooser:
    def __init__(self, prefix):
        self.prefix = prefix
        self.trace = []   # (choice, number of options)

    def __call__(self, options):
        n = len(options)
        i = len(self.trace)
        c = self.prefix[i] if i < len(self.prefix) else 0
        if c >= n:
            raise InternalError(
                'schedule replay diverged at point %d: choice %d of %d'
                % (i, c, n))
        self.trace.append((c, n))
        return options[c]


def explore(run, limit=200000):
    """Run every schedule.  Returns (results, nodes, edges) where results is
    a list of (choices, outcome); nodes/edges count the schedule tree."""
    stack = [[]]
    results = []
    nodes = 1
    edges = 0
    while stack:
        prefix = stack.pop()
        chooser = Chooser(prefix)
        out = run(chooser)
        trace = chooser.trace
        if len(trace) < len(prefix):
            raise InternalError('schedule replay ended early')
        results.append((tuple(c for c, _ in trace), out))
        new = len(trace) - len(prefix) + (1 if prefix else 0)
        nodes += new
        edges += new
        if len(results) > limit:
            raise InternalError('schedule tree larger than %d' % limit)
        for i in range(len(prefix), len(trace)):
            for alt in range(1, trace[i][1]):
                stack.append([c for c, _ in trace[:i]] + [alt])
    return results, nodes, edges
