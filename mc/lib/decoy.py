"""Decoy runs: unrelated executions of the code under test, with parameters
no case uses, run in the same worker process between cases.  Their results
are ignored; their only purpose is to leave behind whatever state the code
keeps between calls, so that a cache keyed too coarsely, a module-level
default that is mutated, or a value remembered from 'the' database shows up
as a wrong result in the cases that follow."""

import io
import sqlite3

import numpy as np

import spowtd.classify as classify_mod
import spowtd.fit_offsets as fit_mod
import spowtd.recession as recession_mod
import spowtd.regrid as regrid_mod
import spowtd.rise as rise_mod
import spowtd.simulate_rise as sim_rise_mod
import spowtd.specific_yield as sy_mod
import spowtd.transmissivity as t_mod
import spowtd.zeta_grid as zeta_grid_mod

from mc.lib import records

_FLIP = [0]


def classification():
    """load + classify a 5-minute (or, alternately, 2-hour) record"""
    _FLIP[0] += 1
    dt = 300 if _FLIP[0] % 2 else 7200
    rain = [0.0, 9.0, 9.0, 0.5, 0.0, 0.0, 0.0, 9.0, 0.25, 0.0, 0.0]
    level = [3.0, 2.75, 6.0, 9.5, 9.75, 9.0, 8.5, 8.0, 12.0, 12.25, 11.0]
    connection = records.new_loaded(rain, level, dt,
                                    t0=records.T0_DEFAULT + 777 * dt,
                                    tzname='Etc/GMT-9')
    try:
        classify_mod.classify_intervals(connection, 7.0, 9.0 * 300 / dt)
        return connection
    except Exception:
        connection.close()
        raise


def workflow():
    """classification decoy + grid 0.7 + rise + recession + simulate rise"""
    connection = classification()
    try:
        zeta_grid_mod.populate_zeta_grid(connection, 0.7)
        connection.commit()
        for fn in (rise_mod.find_rise_offsets,
                   recession_mod.find_recession_offsets):
            try:
                fn(connection, None)
            except Exception:  # pylint: disable=broad-except
                connection.rollback()
    finally:
        connection.close()


def functions():
    """regrid, offsets and hydraulic functions with unusual parameters"""
    list(regrid_mod.regrid(np.array([0.0, 5.0, 9.0]),
                           np.array([3.3, -2.2, 4.4]), 0.7))
    fit_mod.find_offsets({1: [(0, 1.0), (1, 2.5)], 2: [(1, 0.5), (2, 4.0)]})
    sy = sy_mod.create_specific_yield_function(
        {'type': 'spline', 'zeta_knots_mm': [-7.0, 1.0, 2.0, 30.0],
         'sy_knots': [0.9, 0.1, 0.8, 0.2]})
    sy.integrate(-20.0, 50.0)
    sim_rise_mod.compute_rise_curve(sy, np.array([-3.0, 0.5, 7.0]), 3.0)
    t_mod.create_transmissivity_function(
        {'type': 'spline', 'zeta_knots_mm': [-3.0, 4.0, 11.0],
         'K_knots_km_d': [3.0, 0.2, 8.0],
         'minimum_transmissivity_m2_d': 0.3})(9.0)
    t_mod.create_transmissivity_function(
        {'type': 'peatclsm', 'Ksmacz0': 2.2, 'alpha': 2.5,
         'zeta_max_cm': 33.0})(12.0)
    _FLIP[0] += 1
    if _FLIP[0] % 8 == 1:
        # (slow) the published soil parameters with another sd
        sy_mod.create_specific_yield_function(
            {'type': 'peatclsm', 'sd': 0.3, 'theta_s': 0.88, 'b': 7.4,
             'psi_s': -0.024})(10.0)
