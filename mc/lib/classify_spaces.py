"""Spaces and runners shared by the classification checks C01-C04 (and C07).

Three kinds of case, all JSON-serialisable and self-contained:

 kind 'fn'   classify.match_storms on a (rain bits, increment bits) record,
             every proposer schedule explored through the hook
 kind 'db'   load_data + classify_intervals on an in-memory database, record
             over the 3-symbol alphabets with gap mask
 kind 'cli'  the same through user_interface.main on real files
"""

import contextlib
import io
import os
import shutil
import sqlite3
import sys
import tempfile
import traceback
from fractions import Fraction

import numpy as np

import spowtd.classify as classify_mod
import spowtd.user_interface as ui_mod

from mc.engine import Space, Result, InternalError
from mc.lib import choice, records

# (dt seconds, storm threshold, jump threshold): j * dt / 3600 exact in
# binary floating point (verified by selftest)
COMBOS = [
    (3600, 4.0, 2.0),
    (1800, 8.0, 5.0),
    (1200, 3.0, 3.0),
    (600, 3.0, 3.0),
    (3600, 0.5, 0.5),
]
# thresholds many orders of magnitude away from ordinary values (dyadic, so
# that every product and sum stays exact)
EXTREME = [(3600, 2.0 ** -30, 2.0 ** -30), (1800, 2.0 ** 30, 2.0 ** 31)]
# a threshold of exactly zero (any rain is a storm / any increase a rise):
# not "positive", so used only where the property does not ask for that
ZERO = [(3600, 0.0, 0.0), (1800, 0.0, 5.0), (1200, 3.0, 0.0)]
# whole-number intensities whose depth per step is not a whole number
ODD = [(1200, 5.0, 3.0)]
# records in 1960 (negative epochs) and 2040 (epochs beyond 2^31)
FAR_T0 = [-315619200, 2208988800]
# time steps of one day, two days and one second (threshold x step exact)
LONGSTEP = [(86400, 0.25, 0.125), (172800, 0.5, 0.25), (1, 7200.0, 3600.0)]
# threshold x step is NOT exact in binary; increments are the decimal
# products.  Only for oracles that do not compare increments with the
# threshold (C01: totality, one-to-one, overlap)
INEXACT = [(10800, 0.4, 0.3, 'decimal-unit'), (60, 0.7, 0.1, 'decimal-unit'),
           (7200, 1.1, 0.7, 'decimal-unit')]


def selftest():
    for dt, s, j in COMBOS + EXTREME + ODD + LONGSTEP:
        exact = Fraction(j) * Fraction(dt, 3600)
        if Fraction(float(j) * (dt / 3600.)) != exact:
            raise InternalError('threshold product inexact for %r' % (
                (dt, s, j),))
        for m in (-4, -1, 1, 2, 3, 7):
            if Fraction(float(exact) * m) != exact * m:
                raise InternalError('level alphabet inexact')


def fn_api_ok():
    from mc.lib import api
    return api.available(classify_mod, 'match_storms',
                         ('rain', 'head', 'rain_threshold', 'jump_threshold'))


def matching_api_ok():
    from mc.lib import api
    return api.available(classify_mod, 'find_stable_matching',
                         ('storm_candidates', 'jump_preferences'))


def exc_site(exc):
    tb = traceback.extract_tb(exc.__traceback__)
    frames = [f for f in tb if '/spowtd/' in f.filename] or list(tb)
    last = frames[-1]
    return '%s@%s' % (type(exc).__name__, last.name)


# ------------------------------------------------------------ kind 'fn'

def fn_space(length, stretch=1):
    """All (rain bits, increment bits) records with `length` steps; with
    stretch > 1 every step is repeated `stretch` times (durations and start
    offsets of hundreds of steps with the same overlap structure)"""
    n_r = 2 ** length
    n_i = 2 ** (length - 1)

    def decode(i):
        case = {'kind': 'fn', 'L': length, 'rain': i // n_i, 'inc': i % n_i}
        if stretch > 1:
            case['stretch'] = stretch
        return case
    return Space('match_storms/L=%d%s/all-schedules' % (
        length, ' stretched x%d' % stretch if stretch > 1 else ''),
        n_r * n_i, decode,
        'rain in {=s, >s}, increments in {=jump, >jump}',
        decoy_every=4096)


def fn_inputs(case):
    L = case['L']
    rain_bits = [(case['rain'] >> k) & 1 for k in range(L)]
    inc_bits = [(case['inc'] >> k) & 1 for k in range(L - 1)]
    k_ = int(case.get('stretch') or 1)
    if k_ > 1:
        rain_bits = [b for b in rain_bits for _ in range(k_)]
        # the last step has no increment of its own
        inc_bits = [b for b in inc_bits for _ in range(k_)] \
            + [0] * (k_ - 1)
    rain = np.array([5.0 + 5.0 * b for b in rain_bits])      # thr 5
    head = np.concatenate(([0.0], np.cumsum(
        np.array([1.0 + 1.0 * b for b in inc_bits]))))       # thr 1
    return rain_bits, inc_bits, rain, head


class FnRef:
    """Reference for a function-level record (indices instead of epochs)"""

    def __init__(self, rain_bits, inc_bits):
        L = len(rain_bits)
        st = records.Stretch(1)
        st.epochs = list(range(L))
        st.z = [Fraction(0)]
        for b in inc_bits:
            st.z.append(st.z[-1] + 1 + b)
        st.rain = [Fraction(5 + 5 * b) for b in rain_bits]
        # dt = 1 "second", jump threshold 3600 mm/h -> 1 mm per step
        self.ref = records.RefClassification(1, [st], 5, 3600)


def run_fn(case, want):
    rain_bits, inc_bits, rain, head = fn_inputs(case)
    ref = FnRef(rain_bits, inc_bits).ref

    def run(chooser):
        classify_mod.VERIF_PROPOSER_CHOOSER = chooser
        try:
            out = classify_mod.match_storms(rain, head, 5.0, 1.0)
        except Exception as exc:  # pylint: disable=broad-except
            return ('exc', exc_site(exc), repr(exc)[:300])
        finally:
            classify_mod.VERIF_PROPOSER_CHOOSER = None
        return ('ok', tuple((int(a), int(b)) for a, b in out[0]),
                tuple((int(a), int(b)) for a, b in out[1]))

    results, nodes, edges = choice.explore(run)
    viol = {p: [] for p in want}
    outcomes = set()
    counters = {'schedules': len(results)}
    if len(results) > 1:
        counters['records_with_several_schedules'] = 1
    for (sched, out) in results:
        if out[0] == 'exc':
            msg = 'match_storms raised %s (schedule %r)' % (out[2], sched)
            if 'C01' in viol:
                viol['C01'].append(('crash:' + out[1], msg))
            elif 'C02' in viol:
                viol['C02'].append(('crash:' + out[1], msg))
            outcomes.add(out[:2])
            continue
        got = {
            'storm': [(a, b) for a, b in out[1]],
            'rise': [(a, b - 1) for a, b in out[2]],
            'pairs': [(s[0], r[0]) for s, r in zip(out[1], out[2])],
            'depth': [], 'flags': [], 'interstorm': [],
        }
        # depth is not observable at function level: fill from the reference
        got['depth'] = [(s, float(ref.storms[s][2])) for s, _ in got['storm']
                        if s in ref.storms]
        v = records.check_classification(
            ref, got, tuple(p for p in want if p != 'C04'))
        for p, items in v.items():
            for sig, msg in items:
                viol[p].append((sig, msg + ' (schedule %r)' % (sched,)))
        outcomes.add(tuple(sorted(got['pairs'])))
    if len(outcomes) > 1 and not ref.has_ties() and 'C02' in viol:
        viol['C02'].append((
            'schedule-dependent',
            'strict preferences but %d different results over %d schedules'
            % (len(outcomes), len(results))))
    if len(outcomes) > 1:
        counters['records_with_schedule_dependent_result'] = 1
    contention = any(
        sum(1 for (s, r) in ref.candidates if r == rr) > 1
        for (_, rr) in ref.candidates)
    if contention:
        counters['records_with_contention'] = 1
    return viol, {
        'nontrivial': bool(ref.candidates), 'contention': contention,
        'outcome': repr(sorted(map(repr, outcomes))), 'states': nodes,
        'transitions': max(edges, 1), 'counters': counters,
        'obs': {'schedules': len(results), 'results': sorted(
            map(repr, outcomes))[:4]},
    }


# ------------------------------------------------------------ kind 'db'

SYMS3 = 3


def db_space(n, combo, max_gaps, binary=False, cli=False, base_level=0.0,
             t0=None, int_thresholds=False):
    """Records with n samples: rain word (n symbols), increment word
    (n-1 symbols), gap mask over the n-2 interior samples with at most
    max_gaps missing.  binary=True restricts both alphabets to the two
    non-zero symbols (contention-rich)."""
    base = 2 if binary else 3
    masks = [m for m in range(2 ** max(n - 2, 0))
             if bin(m).count('1') <= max_gaps]
    n_r = base ** n
    n_i = base ** (n - 1)
    size = n_r * n_i * len(masks)

    def decode(i):
        mask = masks[i % len(masks)]
        i //= len(masks)
        case = {'kind': 'cli' if cli else 'db', 'n': n, 'combo': combo,
                'base': base, 'rain': i // n_i, 'inc': i % n_i,
                'missing': mask}
        if base_level:
            # the record starts at a level that is not a binary fraction: differences
            # of neighbouring stored levels are still exact (Sterbenz), a rate z / step_h is not
            case['base_level'] = base_level
        if t0 is not None:
            case['t0'] = t0
        if int_thresholds:
            # whole-number thresholds handed over as Python integers
            case['int_thresholds'] = True
        return case
    return Space(
        '%s/n=%d/dt=%d,s=%g,j=%g/%s/gaps<=%d%s%s' % (
            'main(argv)' if cli else 'load+classify', n, combo[0], combo[1],
            combo[2], 'binary' if binary else 'ternary', max_gaps,
            '/levels from %g' % base_level if base_level else '',
            '/record starts at epoch %d' % t0 if t0 is not None else
            '/thresholds passed as integers' if int_thresholds else ''),
        size, decode,
        'rain in {0,=s,>s} x increment in {fall,=j*dt,>j*dt} x gap masks'
        if not binary else
        'rain in {=s,>s} x increment in {=j*dt,>j*dt}')


def digits(value, base, count):
    out = []
    for _ in range(count):
        out.append(value % base)
        value //= base
    return out


def db_inputs(case):
    n = case['n']
    dt, s, j = case['combo'][:3]
    base = case['base']
    rd = digits(case['rain'], base, n)
    idg = digits(case['inc'], base, n - 1)
    if base == 2:
        rd = [d + 1 for d in rd]
        idg = [d + 1 for d in idg]
    unit = float(j) * (dt / 3600.)
    if len(case['combo']) > 3:
        unit = float(repr(round(j * dt / 3600., 9)))
    # zero thresholds: {exactly at the threshold, light, heavy}; the light
    # value lies below the defaults a missing argument would fall back to
    rain_values = (0.0, s, 2 * s) if s > 0 else (0.0, 2.5, 6.0)
    inc_values = (-unit, unit, 2 * unit) if unit > 0 else (0.0, 0.5, 10.0)
    rain = [rain_values[d] for d in rd]
    level = [float(case.get('base_level') or 0.0)]
    for d in idg:
        level.append(level[-1] + inc_values[d])
    for k in range(n - 2):
        if (case['missing'] >> k) & 1:
            level[k + 1] = None
    t0 = case.get('t0', records.T0_DEFAULT)
    return dt, s, j, rain, level, t0


def classify_loaded(connection, s, j):
    classify_mod.classify_intervals(connection, s, j)


def run_db(case, want):
    dt, s, j, rain, level, t0 = db_inputs(case)
    try:
        connection = records.new_loaded(rain, level, dt, t0)
    except Exception as exc:  # pylint: disable=broad-except
        # not a dataset that loads: outside the quantifier
        return ({p: [] for p in want},
                {'nontrivial': False, 'outcome': 'load-refused',
                 'counters': {'load_refused:' + exc_site(exc): 1},
                 'obs': {'load': repr(exc)[:200]}})
    if case.get('int_thresholds'):
        si, ji = int(s), int(j)
        if si != s or ji != j:
            raise InternalError('thresholds are not whole numbers')
    else:
        si, ji = s, j
    try:
        return _classify_and_compare(
            connection, s, j, want,
            lambda: classify_loaded(connection, si, ji))
    finally:
        connection.close()


def _classify_and_compare(connection, s, j, want, do_classify):
    viol = {p: [] for p in want}
    dt, stretches = records.read_loaded(connection)
    ref = records.RefClassification(dt, stretches, s, j)
    counters = {}
    try:
        do_classify()
    except (Exception, SystemExit) as exc:  # pylint: disable=broad-except
        sig = 'crash:' + exc_site(exc)
        msg = 'classification raised %r' % (exc,)
        if 'C01' in viol:
            viol['C01'].append((sig, msg))
        else:
            counters['crash_not_judged_here'] = 1
        return viol, {'nontrivial': bool(ref.candidates),
                      'outcome': sig, 'counters': counters,
                      'obs': {'error': repr(exc)[:200]}}
    got = records.read_classification(connection)
    v = records.check_classification(ref, got, want)
    for p in want:
        viol[p] = v[p]
    n_at_thr = sum(
        1 for st in stretches for k in range(len(st.z) - 1)
        if st.z[k + 1] - st.z[k] == ref.j_delta)
    if n_at_thr:
        counters['records_with_increment_exactly_at_threshold'] = 1
    if len(stretches) > 1:
        counters['records_with_gaps'] = 1
    if any(len(st.epochs) == 1 for st in stretches):
        counters['records_with_single_sample_stretch'] = 1
    if got['interstorm']:
        counters['records_with_interstorm'] = 1
    if got['pairs']:
        counters['records_with_pairs'] = 1
    contention = any(
        sum(1 for (_, r) in ref.candidates if r == rr) > 1
        for (_, rr) in ref.candidates)
    if contention:
        counters['records_with_contention'] = 1
    outcome = repr((sorted(got['pairs']), sorted(got['interstorm']),
                    sorted(got['flags'])))
    return viol, {
        'nontrivial': bool(got['pairs'] or got['interstorm']),
        'contention': contention,
        'outcome': outcome, 'counters': counters,
        'states': 1 + sum(len(st.epochs) for st in stretches),
        'transitions': sum(len(st.epochs) for st in stretches),
        'obs': {'pairs': sorted(got['pairs']),
                'interstorm': sorted(got['interstorm']),
                'storms': sorted(got['storm'])},
    }


# ------------------------------------------------------------ kind 'cli'

_TMP = {}


def tmpdir():
    """Per-process scratch directory (tmpfs if available), removed at exit"""
    pid = os.getpid()
    if _TMP.get('pid') != pid:
        base = '/dev/shm' if os.path.isdir('/dev/shm') and os.access(
            '/dev/shm', os.W_OK) else None
        # named after the process that started the run, which sweeps what
        # terminated pool workers leave behind (mc.run)
        _TMP['dir'] = tempfile.mkdtemp(
            prefix='spowtd-verif-%s-' % os.environ.get(
                'SPOWTD_VERIF_ROOT_PID', pid), dir=base)
        _TMP['pid'] = pid
        import atexit
        import multiprocessing.util
        path = _TMP['dir']
        atexit.register(shutil.rmtree, path, True)
        multiprocessing.util.Finalize(None, shutil.rmtree, args=(path, True),
                                      exitpriority=10)
    return _TMP['dir']


def run_main(argv):
    """user_interface.main(argv) with stdout/stderr captured.

    Returns (status, stdout, stderr, exception or None)."""
    out, err = io.StringIO(), io.StringIO()
    exc = None
    status = 0
    with contextlib.redirect_stdout(out), contextlib.redirect_stderr(err):
        try:
            status = ui_mod.main(argv)
        except SystemExit as e:
            status = e.code if isinstance(e.code, int) else 1
            if status:
                exc = e
        except Exception as e:  # pylint: disable=broad-except
            status = 1
            exc = e
    return status, out.getvalue(), err.getvalue(), exc


def write_files(directory, p, e, z):
    paths = []
    for name, text in (('p.txt', p), ('e.txt', e), ('z.txt', z)):
        path = os.path.join(directory, name)
        with open(path, 'w') as f:
            f.write(text)
        paths.append(path)
    return paths


def cli_load(db, p, e, z, tzname='UTC'):
    directory = os.path.dirname(db)
    pp, ep, zp = write_files(directory, p, e, z)
    if os.path.exists(db):
        os.unlink(db)
    return run_main(['load', db, '-p', pp, '-e', ep, '-z', zp,
                     '--timezone', tzname])


def run_cli(case, want):
    dt, s, j, rain, level, t0 = db_inputs(case)
    d = tmpdir()
    db = os.path.join(d, 'case.sqlite3')
    p, e, z = records.make_texts(rain, level, dt, t0)
    status, _, _, exc = cli_load(db, p, e, z)
    if status != 0:
        return ({p_: [] for p_ in want},
                {'nontrivial': False, 'outcome': 'load-refused',
                 'counters': {'load_refused:' + exc_site(exc): 1},
                 'obs': {'load': repr(exc)[:200]}})

    def do():
        status, _, _, exc = run_main(
            ['classify', db, '-s', repr(s), '-j', repr(j)])
        if status != 0:
            raise exc
    connection = sqlite3.connect(db)
    try:
        return _classify_and_compare(connection, s, j, want, do)
    finally:
        connection.close()
        os.unlink(db)


SEQ_STEPS = ['classify-A', 'classify-B', 'grid-1', 'recession', 'rise']


def sequence_space(depth, dataset=0):
    """Every sequence of up to `depth` workflow steps with TWO different
    classify commands: whatever thresholds the dataset records, the recorded
    classification must be the one for those thresholds"""
    n = len(SEQ_STEPS)
    sizes = [n ** k for k in range(1, depth + 1)]

    def decode(i):
        k = 1
        for size in sizes:
            if i < size:
                break
            i -= size
            k += 1
        seq = []
        for _ in range(k):
            seq.append(SEQ_STEPS[i % n])
            i //= n
        return {'kind': 'sequence', 'steps': seq[::-1], 'dataset': dataset}
    return Space('step sequences up to length %d over %r from dataset %d'
                 % (depth, SEQ_STEPS, dataset), sum(sizes), decode)


def run_sequence(case, want):
    from mc.checks import c13
    blob = c13.state_after(case['steps'], case.get('dataset') or 0)
    connection = sqlite3.connect(':memory:')
    connection.deserialize(blob)
    viol = {p: [] for p in want}
    try:
        row = connection.execute(
            'SELECT storm_rain_threshold_mm_h, rising_jump_threshold_mm_h '
            'FROM thresholds').fetchall()
        if len(row) != 1:
            return viol, {'nontrivial': False, 'outcome': 'unclassified'}
        dt, stretches = records.read_loaded(connection)
        ref = records.RefClassification(dt, stretches, row[0][0], row[0][1])
        got = records.read_classification(connection)
        v = records.check_classification(ref, got, want)
    finally:
        connection.close()
    for p in want:
        viol[p] = [(sig, 'after the steps %r: %s' % (case['steps'], msg))
                   for sig, msg in v[p]]
    return viol, {'nontrivial': True,
                  'outcome': repr((row, sorted(got['pairs']))),
                  'states': len(case['steps']) + 1,
                  'transitions': len(case['steps']),
                  'counters': {'sequences_ending_classified': 1}}


# ----------------------------------------------------------- kind 'long'
# One short motif (storms and rises with contention) at a given position of
# an otherwise quiet record of n steps: whatever the code does in blocks,
# windows or chunks of up to n steps must not show at any position.

MOTIFS = [
    # (rain symbols, increment symbols) over 4 steps; 2 = above threshold,
    # 1 = exactly at it (rain: wet but no storm), 0 = none / falling.  Every
    # rise ends at a wet sample, so the recession after the motif is clean
    ((2, 2, 1, 0), (2, 2, 0, 0)),      # one storm, one rise, two steps
    ((2, 1, 2, 1), (2, 2, 2, 0)),      # two storms under one rise
    ((2, 2, 2, 1), (2, 0, 2, 0)),      # one storm under two rises
]
_LONG = {}


def long_positions(n, around=None):
    if around is None:
        return list(range(0, n - 5))
    out = set()
    for base in around:
        for m in range(base, n, base):
            out.update(q for q in range(m - 5, m + 2) if 0 <= q < n - 5)
    return sorted(out)


def long_space(n, combo, around=None):
    positions = long_positions(n, around)

    def decode(i):
        return {'kind': 'long', 'n': n, 'combo': list(combo),
                'pos': positions[i // len(MOTIFS)],
                'motif': i % len(MOTIFS)}
    return Space(
        'load+classify/one motif in a quiet record of %d steps/dt=%d/%s'
        % (n, combo[0], 'every position' if around is None else
           'positions within 5 steps of the multiples of %s'
           % ' and '.join(map(str, around))),
        len(positions) * len(MOTIFS), decode,
        '3 motifs (storm+rise; two storms under one rise; one storm under '
        'two rises)', decoy_every=256)


def run_long(case, want):
    n = case['n']
    dt, s, j = case['combo'][:3]
    unit = float(j) * (dt / 3600.)
    key = (n, dt, s, j)
    if _LONG.get('key') != key:
        base_level = [-unit * k for k in range(n)]
        connection = records.new_loaded([0.0] * n, base_level, dt)
        _LONG.clear()
        _LONG.update(key=key, bytes=connection.serialize(),
                     epochs=[r[0] for r in connection.execute(
                         'SELECT epoch FROM grid_time ORDER BY epoch')],
                     levels=base_level)
        connection.close()
    connection = sqlite3.connect(':memory:')
    connection.deserialize(_LONG['bytes'])
    epochs = _LONG['epochs']
    rain_sym, inc_sym = MOTIFS[case['motif']]
    p = case['pos']
    z = _LONG['levels'][p]
    for k in range(4):
        connection.execute(
            'UPDATE rainfall_intensity SET rainfall_intensity_mm_h = ? '
            'WHERE from_epoch = ?',
            ((0.0, s, 2 * s)[rain_sym[k]], epochs[p + k]))
        z += (-unit, unit, 2 * unit)[inc_sym[k]]
        connection.execute('UPDATE water_level SET zeta_mm = ? WHERE '
                           'epoch = ?', (z, epochs[p + k + 1]))
    connection.commit()
    try:
        viol, info = _classify_and_compare(
            connection, s, j, want,
            lambda: classify_loaded(connection, s, j))
    finally:
        connection.close()
    info['outcome'] = 'motif %d: %s' % (
        case['motif'], 'as the reference' if not any(viol.values())
        else 'differs')
    info['obs'] = {'pairs': info.get('obs', {}).get('pairs')}
    return viol, info


def run_case_for(case, want):
    kind = case['kind']
    if kind == 'long':
        return run_long(case, want)
    if kind == 'fn':
        viol, info = run_fn(case, want)
    elif kind == 'db':
        viol, info = run_db(case, want)
    elif kind == 'cli':
        viol, info = run_cli(case, want)
    elif kind == 'sequence':
        viol, info = run_sequence(case, want)
    else:
        raise InternalError('unknown case kind %r' % kind)
    return viol, info


def to_result(viol_list, info):
    return Result(viol=viol_list, nontrivial=info.get('nontrivial', False),
                  outcome=info.get('outcome'), states=info.get('states', 1),
                  transitions=info.get('transitions', 1),
                  counters=info.get('counters'), obs=info.get('obs'))
