"""Datasets with assembled master curves and parameter files for the
simulate / pestfiles checks (C17, C18, C19)."""

import os
import sqlite3

import yaml

from mc.engine import InternalError
from mc.lib import classify_spaces as cs
from mc.lib import events, hydraulics

WORDS = [
    ('uniform', 3600, 1.0, 'ramp',
     [('S', 2, 5), ('D', 6), ('S', 3, 5), ('D', 6), ('S', 1, 3), ('D', 4),
      ('S', 2, 5), ('D', 6), ('S', 1, 2), ('D', 6)]),
    ('convex', 1800, 0.5, 'alternating',
     [('S', 1, 3), ('D', 4), ('S', 2, 3), ('D', 6), ('S', 3, 5), ('D', 3),
      ('S', 1, 5), ('D', 6), ('S', 2, 2), ('D', 4)]),
    ('concave', 1200, 2.0, 'ramp',
     [('S', 3, 5), ('D', 6), ('S', 2, 3), ('D', 6), ('S', 1, 5), ('D', 6),
      ('S', 2, 5), ('D', 4)]),
    # the last dry spell lies far above all others: an interstorm interval
    # that is NOT part of the master recession curve, with its own ET
    ('uniform', 3600, 1.0, 'ramp',
     [('S', 2, 5), ('D', 6), ('S', 3, 5), ('D', 6), ('S', 2, 5), ('D', 4),
      ('S', 3, 14), ('D', 3)]),
    # ET exactly zero in every rain-free step (so the average over the
    # recession intervals is exactly 0) and positive while it rains; grid
    # step 2.01 mm (2.01 * 1000 is not exact in binary)
    ('uniform', 3600, 2.01, 'zero-when-dry',
     [('S', 2, 5), ('D', 6), ('S', 3, 5), ('D', 6), ('S', 1, 3), ('D', 4),
      ('S', 2, 5), ('D', 6), ('S', 1, 2), ('D', 6)]),
]
_DB = {}
FILE_TIME = 1600000000

SPLINE_SY = {
    'inside': ([-291.7, -183.1, -15.74, 10.65, 38.78, 168.3],
               [0.1358, 0.1671, 0.2541, 0.2907, 0.2892, 0.6857]),
    'straddle-top': ([5.0, 12.0, 18.5, 21.25, 23.0],
                     [0.2, 0.35, 0.3, 0.55, 0.6]),
    'straddle-bottom': ([19.5, 22.0, 26.0, 30.0, 60.0],
                        [0.5, 0.4, 0.45, 0.7, 0.9]),
    'all-below': ([-50.0, -20.0, -5.0, 2.0], [0.1, 0.2, 0.15, 0.4]),
    'all-above': ([45.0, 50.0, 60.0, 90.0], [0.3, 0.2, 0.5, 0.4]),
    'seven-knots': ([-10.0, 5.0, 15.0, 20.0, 25.0, 35.0, 80.0],
                    [0.15, 0.2, 0.3, 0.28, 0.4, 0.5, 0.6]),
    # knot levels and values that need more than six significant digits
    'long-digits': ([-1291.725, -183.1234567, -15.7403125, 10.6500001,
                     38.78, 168.3],
                    [0.1358123, 0.16710001, 0.2541, 0.29070707, 0.2892,
                     0.68571234]),
    # every knot value is within [0.01, 1] but the cubic dips below zero
    # between 18 and 24 mm: the simulated recession curve is not monotone
    'overshoot': ([12.0, 18.0, 24.0, 30.0], [0.9, 0.01, 0.01, 0.9]),
    # ten or more knots: placeholder names reach two digits
    # the same function as 'straddle-top' with its knots listed from the top
    # down (today refused as not strictly increasing)
    'descending': ([23.0, 21.25, 18.5, 12.0, 5.0], [0.6, 0.55, 0.3, 0.35, 0.2]),
    # whole numbers given as integers, as a hand-written YAML file has them
    'integer-knots': ([0, 10, 20, 30, 40], [0.2, 0.3, 0.25, 0.5, 0.6]),
    'twelve-knots': ([-60.0 + 10.0 * i for i in range(12)],
                     [0.11 + 0.05 * i + 0.02 * (i % 3) for i in range(12)]),
}
SPLINE_T = {
    'field': ([-291.7, -5.167, 168.3, 1000.0],
              [5.356e-3, 1.002, 6577.0, 8.430e+3], 7.442),
    'two-knots': ([-100.0, 100.0], [0.01, 50.0], 1.5),
    'eleven-knots': ([-80.0 + 20.0 * i for i in range(11)],
                     [0.01 * 2.0 ** i for i in range(11)], 0.75),
    'long-digits': ([-291.7123456, -5.1671875, 168.3, 1000.0],
                    [5.3561234e-3, 1.0020001, 6577.0, 8.4301234e+3],
                    7.4421234),
    'five-knots': ([-50.0, 0.0, 15.0, 25.0, 70.0],
                   [0.02, 0.5, 3.0, 40.0, 900.0], 0.25),
    # integers throughout
    'integer': ([-50, 0, 20, 80], [1, 5, 40, 900], 2),
    # values that Python and YAML print in exponent notation
    'tiny': ([-40.0, 10.0, 60.0], [1.2345e-05, 3.3e-07, 0.02], 1.5e-06),
}
PEATCLSM_SY = {
    'published': dict(sd=0.162, theta_s=0.88, b=7.4, psi_s=-0.024),
    'corner': dict(sd=0.05, theta_s=0.5, b=1.0, psi_s=-0.1),
}
PEATCLSM_T = {
    'published-high': dict(Ksmacz0=7.3, alpha=3, zeta_max_cm=10.0),
    'other': dict(Ksmacz0=0.5, alpha=1.5, zeta_max_cm=6.0),
    'tiny-ks': dict(Ksmacz0=7.3e-07, alpha=2.5, zeta_max_cm=8.0),
}


def parameters(sy, tr):
    """Parameter dict for named specific-yield and transmissivity sets"""
    out = {}
    if sy in SPLINE_SY:
        out['specific_yield'] = {
            'type': 'spline', 'zeta_knots_mm': list(SPLINE_SY[sy][0]),
            'sy_knots': list(SPLINE_SY[sy][1])}
    else:
        out['specific_yield'] = dict(PEATCLSM_SY[sy], type='peatclsm')
    if tr in SPLINE_T:
        out['transmissivity'] = {
            'type': 'spline', 'zeta_knots_mm': list(SPLINE_T[tr][0]),
            'K_knots_km_d': list(SPLINE_T[tr][1]),
            'minimum_transmissivity_m2_d': SPLINE_T[tr][2]}
    else:
        out['transmissivity'] = dict(PEATCLSM_T[tr], type='peatclsm')
    return out


def sy_breaks(pars):
    sy = pars['specific_yield']
    if sy['type'] == 'spline':
        return list(sy['zeta_knots_mm'])
    return [-995.0 + 10.0 * i for i in range(201)]


def dataset_bytes(which, curvature=None):
    """Serialised database: loaded, classified, gridded, both curves"""
    key = (which, curvature)
    if key in _DB:
        return _DB[key]
    shape, dt, step, et, word = WORDS[which]
    ds = events.build(word, shape, 2.0, dt, 18,
                      et=None if et == 'zero-when-dry' else et)
    if ds is None:
        raise InternalError('simdata word %d outside the family' % which)
    # irregular levels: the measured master curves are then not straight
    # lines, so that mean, median and end values of a curve all differ
    ds['level'] = [z + 0.0078125 * ((k * 7) % 5 - 2) + 0.0002 * (k % 11) ** 2
                   for k, z in enumerate(ds['level'])]
    if et == 'zero-when-dry':
        ds['et'] = [0.25 if r > 0 else 0.0 for r in ds['rain']] + [0.0]
    connection, errors = events.workflow_db(ds, step)
    if errors:
        raise InternalError('simdata dataset %d: %r' % (which, errors))
    if curvature is not None:
        import spowtd.set_curvature as set_curvature_mod
        set_curvature_mod.set_curvature(connection, curvature)
        connection.commit()
    _DB[key] = connection.serialize()
    connection.close()
    return _DB[key]


def materialise(which, curvature=None, name='sim'):
    # (name distinguishes files that live at the same time)
    path = os.path.join(cs.tmpdir(), '%s-%d.sqlite3' % (name, os.getpid()))
    with open(path, 'wb') as f:
        f.write(dataset_bytes(which, curvature))
    return path


def memory(which, curvature=None):
    connection = sqlite3.connect(':memory:')
    connection.deserialize(dataset_bytes(which, curvature))
    return connection


def master_curve(connection, which):
    """[(level mm, measured value)] ascending, computed from the BASE
    tables (level = zeta_number x grid_interval_mm), not from the views"""
    (step,) = connection.execute(
        'SELECT grid_interval_mm FROM zeta_grid').fetchone()
    if which == 'rise':
        rows = connection.execute(
            'SELECT zeta_number, AVG(rain_depth_offset_mm + '
            'mean_crossing_depth_mm) FROM rising_interval JOIN '
            'rising_interval_zeta USING (start_epoch) GROUP BY zeta_number '
            'ORDER BY zeta_number').fetchall()
    else:
        rows = connection.execute(
            'SELECT zeta_number, AVG(time_offset_s + mean_crossing_time) '
            'FROM recession_interval JOIN recession_interval_zeta '
            'USING (start_epoch) GROUP BY zeta_number '
            'ORDER BY zeta_number').fetchall()
    return [(n * step, v) for n, v in rows]


def write_yaml(pars, name='pars'):
    path = os.path.join(cs.tmpdir(), '%s-%d.yml' % (name, os.getpid()))
    with open(path, 'w') as f:
        yaml.safe_dump(pars, f)
    # the file's timestamps are part of the input: always the same instant,
    # as when a driver rewrites its parameter file several times within one
    # second (whatever is remembered per path and modification time is then
    # stale, on every run and not only on a fast machine)
    os.utime(path, (FILE_TIME, FILE_TIME))
    return path
