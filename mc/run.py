"""Command line of the explorer:  python -m mc.run <ID> [--tier T] [--replay P]"""

import argparse
import importlib
import json
import os
import sys

from mc import engine


def main(argv):
    parser = argparse.ArgumentParser()
    parser.add_argument('property_id')
    parser.add_argument('--tier', default=os.environ.get('VERIF_TIER') or
                        'quick', choices=['quick', 'thorough'])
    parser.add_argument('--replay', default=None)
    parser.add_argument('--jobs', type=int,
                        default=int(os.environ.get('VERIF_JOBS') or 0) or
                        min(16, os.cpu_count() or 1))
    parser.add_argument('--deadline', type=float,
                        default=float(os.environ.get('VERIF_DEADLINE_S') or 0))
    parser.add_argument('--no-evidence', action='store_true')
    parser.add_argument('--prelude', default=None)
    parser.add_argument('--json', action='store_true')
    args = parser.parse_args(argv)
    try:
        seed = int(os.environ.get('VERIF_SEED') or 0)
    except ValueError:
        seed = 0
    pid = args.property_id.upper()
    module = importlib.import_module('mc.checks.' + pid.lower())
    if args.replay:
        with open(args.replay) as f:
            blob = json.load(f)
        case = blob['case'] if 'case' in blob else blob
        selftest = getattr(module, 'selftest', None)
        if selftest:
            selftest()
        prelude = args.prelude
        if prelude is None:
            prelude = blob.get('prelude_decoys') or 0
        if prelude == 'trail':
            res = engine.replay_trail(module, blob['trail'],
                                      blob.get('tier') or args.tier)
        else:
            decoy = getattr(module, 'decoy', None)
            for _ in range(int(prelude) if decoy else 0):
                try:
                    decoy()
                except Exception:  # pylint: disable=broad-except
                    pass
            res = module.run_case(case)
        if args.json:
            print('REPLAY-RESULT ' + json.dumps([s_ for s_, _ in res.viol]))
            return 1 if res.viol else 0
        print(json.dumps({'observed': res.obs, 'nontrivial': res.nontrivial},
                         default=str)[:4000])
        if res.viol:
            for sig, msg in res.viol:
                print('VIOLATION property=%s replay=%s' % (pid, args.replay))
                print('  signature:', sig)
                print('  ' + msg)
            return 1
        print('replay: property held on this case')
        return 0
    deadline = args.deadline or (900.0 if args.tier == 'quick' else 14400.0)
    try:
        code, evidence, lines = engine.run_check(
            module, args.tier, seed, args.jobs, deadline)
    except engine.InternalError as exc:
        print('INTERNAL-ERROR %s: %s' % (pid, exc), file=sys.stderr)
        return 2
    except Exception:  # pylint: disable=broad-except
        import traceback
        print('INTERNAL-ERROR %s: unexpected harness failure\n%s'
              % (pid, traceback.format_exc()), file=sys.stderr)
        return 2
    if not args.no_evidence:
        engine.write_evidence(evidence)
    try:
        engine.summarize(evidence)
        for line in lines:
            print(line)
        sys.stdout.flush()
    except BrokenPipeError:
        pass
    return code


def sweep():
    """Remove scratch directories of this run's (terminated) workers"""
    import glob
    import shutil
    import tempfile
    for base in ('/dev/shm', tempfile.gettempdir()):
        for path in glob.glob(os.path.join(
                base, 'spowtd-verif-%d-*' % os.getpid())):
            shutil.rmtree(path, True)


if __name__ == '__main__':
    os.environ['SPOWTD_VERIF_ROOT_PID'] = str(os.getpid())
    try:
        CODE = main(sys.argv[1:])
    finally:
        sweep()
    sys.exit(CODE)
